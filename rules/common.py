"""Shared structural views used by several properties (C01, C02, C08): the sample recorder."""
from lib.facts import norm

START = "time::timestamp::UntaggedTimestamp::start"
END = "time::timestamp::UntaggedTimestamp::end"

# loop plumbing and value wrappers that may appear between the two timestamps (R02.1).
# All are #[inline] leaf functions of core that neither allocate nor call user code.
TIMED_PLUMBING = {
    "<I as std::iter::IntoIterator>::into_iter": "identity conversion of an iterator (for-loop desugaring)",
    "std::iter::range::next": "Range<usize>::next (for-loop over 0..n)",
    "<std::slice::Iter<'a, T> as std::iter::Iterator>::next": "slice::Iter::next (for-loop over the slot slice)",
    "std::mem::MaybeUninit::new": "wraps the output (no code)",
    "std::mem::MaybeUninit::zeroed": "conjures the ZST input",
    "std::cell::UnsafeCell::new": "wraps the ZST input",
    "std::cell::UnsafeCell::get": "raw pointer to the output slot",
    "std::hint::black_box": "optimisation barrier",
    "std::mem::forget": "defers the drop of a ZST/no-drop output",
    "black_box_drop": "black_box of an output that needs no drop (inputs-only path)",
}


def classify_fn_call(body, c):
    """Role of a call through an Fn* trait inside the recorder body, decided from the *type* of the
    callee value (robust to renaming of the variables), or None."""
    if not c.is_fn_trait_call:
        return None
    self_ty = c.gargs[0] if c.gargs else ""
    args_ty = c.gargs[1] if len(c.gargs) > 1 else ""
    res = norm(c.resolved) if c.resolved else None
    if res and "{closure#" in res:
        return ("local", res)
    srcs = body.prov.op_src(c.args[0]) if c.args else set()
    kinds = {s.kind for s in srcs}
    is_upvar = "upvar" in kinds
    is_param = "param" in kinds
    dest_ty = c.dest["ty"]
    if is_upvar and args_ty == "()":
        return ("gen_input", None)
    if is_param and self_ty.startswith("dyn ") and "FnMut(&" in self_ty:
        return ("count_input", None)
    if is_upvar and "UnsafeCell<" in args_ty:
        if dest_ty == "()":
            return ("drop_input", None)
        return ("benched", None)
    return ("unknown", None)


class Path:
    """One of the recorder's sample-loop paths, identified by its `start` call."""

    def __init__(self, rec, start):
        b = rec.body
        self.rec = rec
        self.start = start
        other_starts = [s.bb for s in rec.starts if s.bb != start.bb]
        fw = b.reach(b.succ[start.bb], avoid=other_starts)
        self.ends = [e for e in rec.ends if e.bb in fw]
        self.region = b.between([start.bb], [e.bb for e in self.ends]) - {e.bb for e in self.ends}
        # blocks that reach `start` without passing another start, and are not shared with other paths
        self.pre = b.reach_back([start.bb]) - {start.bb}
        self.post = set()
        for e in self.ends:
            self.post |= b.reach(b.succ[e.bb])
        # path-specific prefix: blocks of `pre` that cannot reach another path's start
        reach_other = b.reach_back(other_starts) if other_starts else set()
        self.pre_own = self.pre - reach_other
        self.label = None

    def loops(self, where):
        b = self.rec.body
        blocks = {"pre": self.pre_own, "timed": self.region, "post": self.post}[where]
        return [l for l in b.loops if l["header"] in blocks]

    def calls(self, where, role=None):
        blocks = {"pre": self.pre_own, "timed": self.region, "post": self.post}[where]
        out = []
        for c in self.rec.body.live_calls():
            if c.bb in blocks and (role is None or self.rec.role(c) == role):
                out.append(c)
        return out


class Recorder:
    """The closure that records one sample: the body that takes both untagged timestamps around a
    call of a captured `Fn(&UnsafeCell<MaybeUninit<I>>) -> O` and shows inputs to a
    `&mut dyn FnMut(&I)` parameter."""

    def __init__(self, prog, crate="divan"):
        self.prog = prog
        self.body = None
        cands = []
        for b in prog.lib_bodies(crate):
            st = b.calls_named("=" + START)
            en = b.calls_named("=" + END)
            if st and en:
                roles = {classify_fn_call(b, c)[0] for c in b.live_calls() if c.is_fn_trait_call}
                if "count_input" in roles and "benched" in roles:
                    cands.append(b)
        if len(cands) == 1:
            self.body = cands[0]
        self.candidates = cands
        if self.body is None:
            return
        b = self.body
        self.starts = b.calls_named("=" + START)
        self.ends = b.calls_named("=" + END)
        self._roles = {}
        self.sync_closures = set()
        self.save_closures = set()
        self._clears = {}        # sync callable -> does it (transitively) clear the tally
        for c in b.live_calls():
            r = classify_fn_call(b, c)
            if r is None:
                # a plain call of a crate-local function: a synchronisation / snapshot step written as a nested fn
                cb = prog.bodies.get((b.crate, c.callee, -1)) if not c.is_fn_trait_call else None
                if cb is not None and cb.kind in ("Fn", "AssocFn") and c.callee not in (START, END):
                    role = self._classify_local(cb, plain=True)
                    if role in ("sync_threads", "save_alloc_info"):
                        self._roles[c.bb] = role
                continue
            role, res = r
            if role == "local":
                cb = prog.bodies.get((b.crate, res, -1))
                role = self._classify_local(cb)
            self._roles[c.bb] = role
        self.paths = [Path(self, s) for s in self.starts]
        for p in self.paths:
            p.label = self._label(p)

    def _classify_local(self, cb, plain=False):
        """sync closure: reaches Barrier::wait; save closure: reads ThreadAllocInfo::try_current and
        writes the captured tally."""
        if cb is None:
            return "local:?"
        bodies, ext, _ = self.prog.callee_closure([cb], crate=cb.crate)
        names = set(ext)
        if "std::sync::Barrier::wait" in names:
            self.sync_closures.add(cb.path)
            self._clears[cb.path] = any(x.path.endswith("ThreadAllocInfo::clear") for x in bodies) or any(n.endswith("ThreadAllocInfo::clear") for n in names)
            return "sync_threads"
        if plain:
            return "local:" + cb.path       # library functions called by name keep their own name (ThreadAllocInfo::...)
        if any(n.endswith("ThreadAllocInfo::try_current") for n in [x.path for x in bodies]) or \
                any(n.endswith("ThreadAllocInfo::try_current") for n in names):
            self.save_closures.add(cb.path)
            return "save_alloc_info"
        return "local:" + cb.path

    def role(self, c):
        return self._roles.get(c.bb)

    def sync_arg(self, c):
        """Constant bool passed to the sync closure at call c (True = start), or None."""
        b = self.body
        flag = c.args[1] if c.is_fn_trait_call and len(c.args) >= 2 and "bool" in (c.gargs[1] if len(c.gargs) > 1 else "") else None
        if flag is None and not c.is_fn_trait_call:
            bools = [a for a in c.args if (a.get("c") or a.get("p") or {}).get("ty") == "bool"]
            flag = bools[0] if len(bools) == 1 else None
        if flag is not None:
            srcs = b.prov.op_src(flag)
            vals = {s.a for s in srcs if s.kind == "const"}
            if vals == {"const true"} or vals == {"true"}:
                return True
            if vals == {"const false"} or vals == {"false"}:
                return False
            if vals:
                return None
        # no flag at all: start and end synchronisation are separate callables, told apart by what they do - the start
        # step is the one that clears the tally
        tgt = None
        if c.is_fn_trait_call:
            r = classify_fn_call(b, c)
            tgt = r[1] if r and r[0] == "local" else None
        else:
            tgt = c.callee
        cb = self.prog.bodies.get((b.crate, tgt, -1)) if tgt else None
        if cb is None or tgt not in self._clears:
            return None
        params = [cb.local_ty(l) or "" for l in range(2 if cb.kind == "Closure" else 1, cb.arg_count + 1)]
        enums = [t_ for t_ in params if (self.prog.adt(t_, b.crate) or {}).get("kind") == "enum"]
        if "bool" not in params and not enums:
            return self._clears[tgt]
        if len(enums) == 1 and "bool" not in params:
            return self._sync_kind_by_variant(c, cb, enums[0])
        return None

    def _sync_kind_by_variant(self, c, cb, enum_ty):
        """The phase is named by a two-variant enum (`SyncPoint::SampleStart` / `SampleEnd`) instead of a bool: the variant
        passed here, and whether the implementation clears the tally on the paths that variant selects (lib/patheval)."""
        from lib.patheval import PathEval
        b = self.body
        adt = self.prog.adt(enum_ty, b.crate)
        names = [v["name"] for v in adt["variants"]]
        k = (c.args[1] if c.is_fn_trait_call and len(c.args) >= 2 else None)
        cands = [k] if k is not None else [a for a in c.args]
        passed = set()
        for a in cands:
            for z in b.prov.op_src(a):
                if z.kind == "variant" and str(z.a).rsplit("::", 1)[0].endswith(enum_ty.rsplit("::", 1)[-1]) and str(z.a).rsplit("::", 1)[-1] in names:
                    passed.add(names.index(str(z.a).rsplit("::", 1)[-1]))
        if len(passed) != 1:
            return None
        vi = list(passed)[0]
        # the body that dispatches on the enum: the callable itself or the one function it forwards the value to
        bodies, _e, _i = self.prog.callee_closure([cb], crate=b.crate)
        impl = [x for x in bodies if any((x.local_ty(base) or "").endswith(enum_ty) for _bi, _t, base in __import__("lib.tables", fromlist=["x"]).discr_switches(x))]
        ab = getattr(self.prog, "_absorbed", ())
        impl = [x for x in impl if (x.crate, x.path) not in ab]
        if cb in impl:
            impl = [cb]      # the helper that dispatches was spliced into the callable itself
        if len(impl) != 1:
            return None
        x = impl[0]
        sums = PathEval(x, max_paths=2000).run()
        if not sums:
            return None
        clears = False
        for sm in sums:
            ok = True
            for a, pol in sm.conds:
                if a[0] == "discr" and "('arg'," in str(a[1]) and (x.local_ty(a[1][1]) if a[1][0] == "arg" and not a[1][2] else "").endswith(enum_ty):
                    v = a[2]
                    sel = (set(range(len(names))) - {int(q) for q in v[6:].split(",") if q}) if isinstance(v, str) and v.startswith("other:") else {int(v)}
                    ok = ok and ((vi in sel) == pol)
            if ok and any(cl[0].endswith("ThreadAllocInfo::clear") for cl in sm.calls):
                clears = True
        return clears

    def _label(self, p):
        """zst / slots / inputs, from the iterator type of the timed loop."""
        b = self.body
        tys = set()
        for c in p.calls("timed"):
            if c.callee.endswith("::next") or c.callee == "std::iter::range::next":
                tys.add(c.callee + " " + (c.gargs[0] if c.gargs else ""))
        s = " ".join(sorted(tys))
        if "range::next" in s or "Range<" in s:
            return "zst"
        if "DeferSlot<" in s:
            return "slots"
        if "slice::Iter" in s:
            return "inputs"
        return "path@bb%d" % p.start.bb


class ExpansionView:
    """View of the C12 expansion rules (engine E3) restricted to the checks another property states about what the
    attribute macros emit; the selected obligations are recorded under that property's own rule id."""

    def __init__(self, ctx, rule, keys):
        self._c = ctx
        self._rule = rule
        self._keys = set(keys)
        self.tier = ctx.tier
        self.extra = {}

    def _mine(self, key):
        return any(str(k) in self._keys for k in key)

    def check(self, cond, rule, key, msg, where=None, detail=None):
        if self._mine(key):
            return self._c.check(cond, self._rule, key, msg, where, detail)
        return bool(cond)

    def fail(self, rule, key, msg, where=None):
        if self._mine(key):
            self._c.fail(self._rule, key, msg, where)

    def ok(self, rule, instance, detail=None):
        pass

    def anchor(self, rule, what, found, floor=1, where=None):
        n = found if isinstance(found, int) else len(found)
        return n >= floor

    def note(self, s):
        pass

    def saw(self, body):
        pass

    def __setattr__(self, k, v):
        if k in ("_c", "_rule", "_keys", "tier", "extra"):
            object.__setattr__(self, k, v)
        else:
            setattr(self._c, k, v)


class Renamed:
    """Runs a rule function of another property under this property's own rule id (the clause is shared; each property
    that states it must report it itself)."""

    def __init__(self, ctx, rule):
        object.__setattr__(self, "_c", ctx)
        object.__setattr__(self, "_rule", rule)

    def _r(self, rule):
        return self._rule + ("/ANCHOR" if rule.endswith("/ANCHOR") else "")

    def check(self, cond, rule, key, msg, where=None, detail=None):
        return self._c.check(cond, self._r(rule), key, msg, where, detail)

    def fail(self, rule, key, msg, where=None):
        self._c.fail(self._r(rule), key, msg, where)

    def ok(self, rule, instance, detail=None):
        self._c.ok(self._r(rule), instance, detail)

    def anchor(self, rule, what, found, floor=1, where=None):
        return self._c.anchor(self._rule, what, found, floor, where)

    def __getattr__(self, k):
        return getattr(self._c, k)

    def __setattr__(self, k, v):
        setattr(self._c, k, v)


def variant_table(prog, body, crate="divan"):
    """For a function of one enum value (`self`, by value or by reference) with no loops: the value returned for each
    variant of the enum, {variant name: canonical return expression}, decided from the discriminant tests on every path
    (lib.patheval). None when some path's result does not depend on the discriminant alone in a way we can read."""
    from lib.patheval import PathEval
    ty = (body.local_ty(1) or "").lstrip("&").strip()
    if ty.startswith("mut "):
        ty = ty[4:]
    adt = prog.adt(ty, crate)
    if not adt or adt["kind"] != "enum":
        return None
    names = [v["name"] for v in adt["variants"]]
    sums = PathEval(body).run()
    if not sums:
        return None
    table = {}
    for s in sums:
        possible = set(range(len(names)))
        for a, pol in s.conds:
            if a[0] != "discr":
                return None  # a decision on something other than the variant
            if "('arg', 1" not in str(a[1]) and "(1, " not in str(a[1]):
                return None  # the variant tested is not self's
            v = a[2]
            if isinstance(v, str) and v.startswith("other:"):
                listed = {int(x) for x in v[6:].split(",") if x}
                sel = set(range(len(names))) - listed
            else:
                sel = {int(v)}
            possible &= sel if pol else (set(range(len(names))) - sel)
        for i in possible:
            if i >= len(names):
                return None
            if names[i] in table and table[names[i]] != s.ret:
                return None
            table[names[i]] = s.ret
    if set(table) != set(names):
        return None
    return table


def snake(name):
    import re
    return re.sub(r"(?<=[a-z0-9])([A-Z])", r"_\1", name).lower()


def variant_predicates(ctx, rule, prog, crate, enum_suffix, floor):
    """Every `is_<variant>` predicate of the enum answers true for exactly the variant it is named after (the rules of
    this property take these predicates at their word when they meet a call to one)."""
    adt = prog.adt(enum_suffix, crate)
    if not ctx.check(adt is not None and adt["kind"] == "enum", rule, [enum_suffix, "enum"], "enum `%s` not found" % enum_suffix):
        return
    by_snake = {snake(v["name"]): v["name"] for v in adt["variants"]}
    n = 0
    for b in prog.lib_bodies(crate):
        if b.kind != "AssocFn" or b.arg_count != 1 or b.local_ty(0) != "bool":
            continue
        head, _, last = b.path.rpartition("::")
        if not head.endswith(enum_suffix) or not last.startswith("is_") or last[3:] not in by_snake:
            continue
        ctx.saw(b)
        n += 1
        want = by_snake[last[3:]]
        t = variant_table(prog, b, crate)
        if not ctx.check(t is not None, rule, [last, "decided-by-variant"], "cannot read `%s` as a function of the variant alone" % b.path, b.where(0)):
            continue
        yes = sorted(v for v, e in t.items() if e == ("int", 1))
        odd = sorted(v for v, e in t.items() if e not in (("int", 1), ("int", 0)))
        ctx.check(not odd and yes == [want], rule, [last, "true-exactly-for-its-variant"],
                  "`%s` answers true for %s%s, expected exactly [%s]" % (b.path, yes, " and a non-constant for %s" % odd if odd else "", want), b.where(0))
    ctx.anchor(rule, "is_<variant> predicates of %s" % enum_suffix, n, floor)


def trace_sources(prog, body, op, path=(), depth=4, _seen=None):
    """Provenance of an operand across closure boundaries: the sources of `op` in `body`, with every captured variable
    replaced by the sources of what the building function stored into the closure, and every closure parameter by the
    sources of the matching argument at each call of that closure (by the building function or a sibling closure).
    Returns a set of (body, Src)."""
    _seen = _seen if _seen is not None else set()
    out = set()
    for s in body.prov.op_src(op, path=path):
        out |= _expand_src(prog, body, s, depth, _seen)
    return out


def _expand_src(prog, body, s, depth, _seen):
    key = (body.path, s.key())
    if depth <= 0 or key in _seen:
        return {(body, s)}
    _seen = _seen | {key}
    if s.kind == "upvar":
        for cn in body.captures or []:
            if cn.lstrip("*") == str(s.a).lstrip("*"):
                cp = prog.capture_operand(body, cn)
                if cp:
                    return {(body, s)} | trace_sources(prog, cp[0], cp[1], (), depth - 1, _seen)
        return {(body, s)}
    if s.kind == "param" and body.kind == "Closure":
        idx = None
        for l, nm in body.names.items():
            if nm == s.a and 2 <= l <= body.arg_count:
                idx = l - 2
        par = prog.parent_body(body)
        if idx is None or par is None:
            return {(body, s)}
        out = {(body, s)}
        for y in [par] + [k for k in prog.children(par) if k is not body]:
            for c in y.live_calls():
                if c.is_fn_trait_call and c.name == body.path and len(c.args) == 2:
                    out |= trace_sources(prog, y, c.args[1], (idx,), depth - 1, _seen)
        return out
    return {(body, s)}


def tally_slot_statics(prog, crate="divan"):
    """The statics that hold a thread's allocation tally, found by their type (whatever the thread_local! key is called
    and wherever it is declared): (statics whose type mentions ThreadAllocInfo, path of the key they belong to or None)."""
    tls = [s for s in prog.statics(crate) if "alloc::ThreadAllocInfo" in s["ty"]]
    keys = {s["path"].split("::{constant#")[0] for s in tls}
    return tls, (list(keys)[0] if len(keys) == 1 else None)


def hosted_in(prog, body, root_path):
    """Is `body` a closure (or nested item) of the function `root_path` - directly, or built by a helper that lib.inline
    spliced into it (Program.parent_body follows such helpers to the function that now contains their code)?"""
    x = body
    for _ in range(8):
        if x is None:
            return False
        if x.path == root_path:
            return True
        x = prog.parent_body(x)
    return False


def closure_of(prog, crate, name, root_path):
    """`name` (a Call.name) is a closure hosted in `root_path`."""
    if "{closure#" not in (name or ""):
        return False
    cb = prog.bodies.get((crate, name, -1))
    return cb is not None and cb.path != root_path and hosted_in(prog, cb, root_path)


def slots_result_variants(prog, crate="divan"):
    """What DeferStore::slots() hands back, told apart by payload rather than by name (Result::Ok/Err today; a dedicated
    two-variant enum is the same thing): {"slots": (variant name, discriminant index), "inputs": (...)} - the variant whose
    payload is the slice of DeferSlot (inputs and outputs deferred) and the one whose payload is the plain input cells."""
    sb = prog.body("benchmark::defer::DeferStore::slots", crate)
    out = {}
    if sb is None:
        return out
    for bi, si, s in sb.stmts():
        rv = s.get("rv") or {}
        if s["k"] == "assign" and s["p"]["l"] == 0 and rv.get("k") == "agg" and rv.get("ak") == "adt" and rv.get("ops"):
            o = rv["ops"][0]
            ty = (o.get("p") or o.get("c") or {}).get("ty") or ""
            kind = "slots" if "DeferSlot<" in ty else "inputs"
            if kind in out and out[kind] != (rv.get("variant"), rv.get("vi")):
                return {}
            out[kind] = (rv.get("variant"), rv.get("vi"))
    return out if set(out) == {"slots", "inputs"} else {}


def pure_waiter(prog, body, c):
    """The call `c` in `body` goes to a local closure / function that does nothing but wait on the barrier it is given
    (`if let Some(b) = barrier { b.wait() }` factored out): for the order of waits and clears it is a wait."""
    tgt = None
    if c.is_fn_trait_call:
        nm = c.name
        tgt = prog.bodies.get((body.crate, nm, -1)) if "{closure#" in (nm or "") else None
    else:
        tgt = prog.bodies.get((body.crate, c.callee, -1))
    if tgt is None or tgt is body:
        return False
    names = [x.callee for x in tgt.live_calls()]
    return bool(names) and set(names) == {"std::sync::Barrier::wait"} and not tgt.loops


def slot_selected_by_match(b, recv_op, selector_callee):
    """The place a call's receiver points to is chosen by a `match` on selector_callee(..): the receiver local has one
    definition per arm of a switch whose discriminant derives from that call, each a reference to a different static."""
    def inner(rv):
        if rv["k"] in ("ref", "rawptr"):
            return rv["p"]
        if rv["k"] in ("use", "cast") and rv.get("o", {}).get("k") in ("copy", "move"):
            return rv["o"]["p"]
        return None
    if recv_op.get("k") not in ("copy", "move"):
        return False
    l = recv_op["p"]["l"]
    for _ in range(8):
        defs = [d for d in b.prov.defs.get(l, []) if d[0] == "S"]
        if len(defs) != 1:
            break
        pl = inner(defs[0][3]["rv"])
        if pl is None:
            break
        l = pl["l"]
    defs = [d for d in b.prov.defs.get(l, []) if d[0] == "S"]
    if len(defs) < 2:
        return False
    picks = []
    for d in defs:
        pl = inner(d[3]["rv"])
        if pl is None:
            return False
        consts = {x.a for x in b.prov.op_src({"k": "copy", "p": {"l": pl["l"], "proj": []}}) if x.kind in ("const", "static")}
        if len(consts) != 1:
            return False
        picks.append((d[1], consts.pop()))
    if len({x[1] for x in picks}) != len(picks):
        return False        # two arms share one cell
    for sb, t in b.switches():
        if not any(x.kind == "call" and x.a == selector_callee for x in b.prov.op_src(t["discr"])):
            continue
        targets = [a[1] for a in t["arms"]] + [t["otherwise"]]
        used = set()
        for bi, _ in picks:
            arm = [tg for tg in targets if b.pred[tg] == [sb] and b.dominates(tg, bi)]
            if len(arm) != 1:
                break
            used.add(arm[0])
        else:
            if len(used) == len(picks):
                return True
    return False
