// Demonstration of F-C04 (fixed by /repo commit ff7ca29). Place as tests/probe_overheads.rs in a checkout of divan and run
//   cargo test --offline --test probe_overheads
// Before the fix: "calls = 1" and the assertion fails (the one-off bench_overheads() measurement, taken after the initial
// timestamp, used up the whole 50 ms budget of the first benchmark of the process). After the fix: about 40 calls, passes.
use std::sync::atomic::{AtomicU32, Ordering};
static CALLS: AtomicU32 = AtomicU32::new(0);

#[divan::bench(sample_size = 1, sample_count = 1000, max_time = 0.05)]
fn first() {
    CALLS.fetch_add(1, Ordering::Relaxed);
    std::thread::sleep(std::time::Duration::from_millis(1));
}

#[test]
fn first_benchmark_gets_its_budget() {
    divan::Divan::default().run_benches();
    let n = CALLS.load(Ordering::Relaxed);
    eprintln!("calls = {n}");
    assert!(n >= 10, "only {n} samples were taken within max_time = 50ms");
}
