use divan::Divan;
use std::sync::Mutex;
static ORDER: Mutex<Vec<(&'static str, String)>> = Mutex::new(Vec::new());

#[divan::bench(args = ["1e3", "200", "5x"])]
fn decl_a(a: &&str) { ORDER.lock().unwrap().push(("a", a.to_string())); }
#[divan::bench(args = ["5x", "1e3", "200"])]
fn decl_b(a: &&str) { ORDER.lock().unwrap().push(("b", a.to_string())); }
#[divan::bench(args = ["200", "5x", "1e3"])]
fn decl_c(a: &&str) { ORDER.lock().unwrap().push(("c", a.to_string())); }

#[test]
fn order_is_a_function_of_the_set() {
    Divan::default().test_benches();
    let o = ORDER.lock().unwrap();
    let pick = |k: &str| o.iter().filter(|e| e.0 == k).map(|e| e.1.clone()).collect::<Vec<_>>();
    let (a, b, c) = (pick("a"), pick("b"), pick("c"));
    eprintln!("{a:?}\n{b:?}\n{c:?}");
    assert_eq!(a, b);
    assert_eq!(a, c);
}

#[divan::bench(args = ["9007199254740993", "9007199254740992.0", "9007199254740992"])]
fn big(a: &&str) { ORDER.lock().unwrap().push(("big", a.to_string())); }

#[divan::bench(args = ["*", "5", "-nan", "abc", "-1", "1e-1", "inf", "-inf", "0", "-0"])]
fn odd(a: &&str) { ORDER.lock().unwrap().push(("odd", a.to_string())); }

#[test]
fn zz_big() {
    Divan::default().test_benches();
    let o = ORDER.lock().unwrap();
    let pick = |k: &str| o.iter().filter(|e| e.0 == k).map(|e| e.1.clone()).collect::<Vec<_>>();
    eprintln!("{:?}\n{:?}", pick("big"), pick("odd"));
    let big = pick("big");
    let i = |s: &str| big.iter().position(|x| x == s).unwrap();
    assert!(i("9007199254740992") < i("9007199254740993"));
}
