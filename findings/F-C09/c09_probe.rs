// Probe F-C09: a single valid, oversized request makes AllocProfiler panic (dev profile) instead of forwarding it.
use std::alloc::{GlobalAlloc, Layout};
use std::sync::atomic::{AtomicUsize, Ordering::SeqCst};

struct Refusing { calls: AtomicUsize }
unsafe impl GlobalAlloc for Refusing {
    unsafe fn alloc(&self, layout: Layout) -> *mut u8 {
        self.calls.fetch_add(1, SeqCst);
        if layout.size() > 1 << 40 { std::ptr::null_mut() } else { std::alloc::System.alloc(layout) }
    }
    unsafe fn dealloc(&self, ptr: *mut u8, layout: Layout) { std::alloc::System.dealloc(ptr, layout) }
}

#[test]
fn oversized_request_is_forwarded_and_null_returned() {
    let profiler = divan::AllocProfiler::new(Refusing { calls: AtomicUsize::new(0) });
    let r = std::thread::spawn(move || unsafe {
        // some live memory first, then one request of the largest size a Layout can have
        let small = Layout::from_size_align(64, 8).unwrap();
        let p = profiler.alloc(small);
        assert!(!p.is_null());
        let big = Layout::from_size_align(isize::MAX as usize, 1).unwrap();
        let q = profiler.alloc(big);
        profiler.dealloc(p, small);
        q.is_null()
    })
    .join();
    assert!(matches!(r, Ok(true)), "AllocProfiler::alloc panicked or did not return the wrapped allocator's null: {r:?}");
}
