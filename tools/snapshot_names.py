#!/usr/bin/env python3
"""Write tables/names.json: the ADTs (variants, field names and types) and functions (signatures) of the library crate on
the current /repo tree - the reference lib/rename.py maps renamed items back to. Run it when the reference tree changes
(after a `fix:` commit); it is never written by a check."""
import glob
import json
import os
import sys

sys.path.insert(0, os.path.dirname(os.path.dirname(os.path.abspath(__file__))))
from lib import extract, rename  # noqa: E402

d = extract.extract("K1", verbose=False)
lib = None
for f in sorted(glob.glob(os.path.join(d, "*.json"))):
    with open(f) as fh:
        x = json.load(fh)
    if x["crate"] == "divan" and not x.get("test"):
        lib = x
snap = rename.summarise(lib)
for v in snap["fns"].values():
    v.pop("raw", None)
snap["tree"] = extract.tree_hash()
os.makedirs(os.path.dirname(rename.SNAPSHOT), exist_ok=True)
with open(rename.SNAPSHOT, "w") as fh:
    json.dump(snap, fh, indent=0, sort_keys=True)
print("wrote %s: %d ADTs, %d functions" % (rename.SNAPSHOT, len(snap["adts"]), len(snap["fns"])))
