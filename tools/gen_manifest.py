#!/usr/bin/env python3
"""Regenerate /verif/MANIFEST.json from the rule modules that exist (rules/Cxx.py) and the table below."""
import importlib
import json
import os
import sys

VERIF = os.path.dirname(os.path.dirname(os.path.abspath(__file__)))
sys.path.insert(0, VERIF)

TECH = {
    "C01": "MIR path multiplicity/pairing rules over the polymorphic sample recorder (loops, roles by Fn type, unwind-path audit) + Sync-bound predicates and compile-fail witnesses",
    "C02": "MIR region rule between timestamp anchors (callee allow-list, no Drop), tally-bracket ordering, who-may-call, fence order",
    "C03": "MIR dominance/once-per-iteration rules on the sampling loop, constants and provenance of reported counts",
    "C04": "decision-DAG extraction of the sampling-loop condition (comparison atoms) compared with the documented truth table; provenance of the two clocks",
    "C05": "provenance role-pairing of StatsSet fields, index writer/reader agreement, division-guard discharge over every Div/Rem reachable from compute_stats/finish_leaf",
    "C06": "MIR structural rules: ordering constants, use-after-release typestate, wait-loop dominance, counter/send provenance, trait-bound predicates",
    "C07": "MIR structural rules: park-loop re-check, unpark control dependence, worker exit path, sender ownership, lock-scope audit",
    "C08": "must-pass-through barrier placement on all recorder paths, barrier arity provenance, unwind-path audit of user-closure calls",
    "C09": "MIR forwarding rule (exactly-once, verbatim operands, result place), transitive callee-closure allow-list, thread-local type facts",
    "C10": "MIR operand/field pairing rules on tally functions, enum/array table agreement, straight-line write ordering",
    "C11": "MIR expression-shape rules (widen before multiply, multiply before divide, constants, checked ops) + type-range argument",
    "C12": "syn analysis of attribute-macro expansions (-Zunpretty=expanded) against attributed items of the unexpanded source + MIR rules on list/tree insertion",
    "C13": "polarity constants, decision table of FilterSet::is_match, call-site placement of the filter callback per tree arm, naming-accessor agreement",
    "C14": "entry-point/action constant tables, dominance of the listing short-circuit, provenance of every should_ignore argument, print-site structure of the terse walk",
    "C15": "ADT-enumerated field-wise merge provenance, merge direction at call sites, string-constant table agreement (CLI ids/env names/fields), ignore decision table",
    "C16": "symmetric-comparator taint over all Ordering-returning functions, tie-breaker table, reversal wiring, mutator effect rule, derived-Ord field order",
    "C17": "provenance of label/index/runner in the Args arm, writers of Leaf.args, parallel-slice construction in BenchArgs::runner, TypeId check dominance; macro side via expansions",
    "C18": "constant-table agreement of scale thresholds/suffixes (time units, decimal/binary prefixes)",
    "C19": "mode-machine constants and control dependence in the sampling loop, clear discipline (ADT-enumerated)",
    "C20": "path-sensitive start/finish typestate with correlated-branch splitting, is_last provenance, width-constant agreement, column-table agreement",
}

LEVEL_TEXT = (
    "Static analysis of the type-checked program (MIR + type facts exported by a rustc_private driver; macro expansions "
    "via syn where stated). Each rule decides a stated structural clause exactly on every CFG path of the analysed "
    "configurations and is a necessary condition of the property; clauses that quantify over runtime values, schedules "
    "or clock histories are listed as not decided in DESIGN.md and in the evidence. Level `other`, not `proof`: the "
    "property as a whole is covered partially.")

NOT_BUILT = "rules not built yet (see DESIGN.md section 8); no check is claimed until it exists and has passed its self-tests"


def main():
    ids = [json.loads(l)["id"] for l in open(os.path.join(VERIF, "properties.jsonl"))]
    checks = []
    na = []
    extra_na = {}
    p = os.path.join(VERIF, "not_applicable.json")
    if os.path.exists(p):
        extra_na = json.load(open(p))
    for i in ids:
        if os.path.exists(os.path.join(VERIF, "rules", i + ".py")) and i not in extra_na:
            mod = importlib.import_module("rules." + i)
            nd = getattr(mod, "NOT_DECIDED", [])
            checks.append({
                "property_id": i,
                "quick_cmd": "./check %s --tier quick" % i,
                "thorough_cmd": "./check %s --tier thorough" % i,
                "evidence_file": "evidence/%s.json" % i,
                "replay_cmd_template": "./check %s --replay {path}" % i,
                "engine": "mirfacts+rules",
                "level_claimed": {"category": "other", "text": LEVEL_TEXT + " Clauses decided: " + mod.EXPLANATION,
                                  "design_ref": "DESIGN.md section 4, " + i},
                "level_note": "Trusted: rustc nightly front end/MIR construction/drop elaboration, Instance::try_resolve, "
                              "the semantics of std items named in allow-lists, the fact exporter and rule engine "
                              "(cross-checked by mutants/ and seeded/). Not decided: " + "; ".join(nd),
                "technique": TECH[i],
            })
        else:
            na.append({"property_id": i, "reason": extra_na.get(i, NOT_BUILT)})
    m = {
        "version": 1,
        "setup_cmd": "./setup.sh",
        "hooks": {
            "guard": "divan_verif",
            "enable": "none needed: the checks analyse /repo's unmodified source (cargo +nightly check with the mirfacts "
                      "driver as RUSTC_WORKSPACE_WRAPPER); the guard name is reserved and unused",
            "baseline_off_cmd": "cd /repo && cargo test --workspace --no-fail-fast --offline",
            "source_commits": [],
            "add_only": True,
        },
        "engines": [
            {"name": "mirfacts", "path": "driver/", "serves_properties": ids,
             "kind_free_text": "rustc_private driver exporting structured MIR, resolved callees and type facts as JSON"},
            {"name": "rules", "path": "lib/ rules/ check", "serves_properties": ids,
             "kind_free_text": "Python rule engine: CFG/dominance/loops, provenance, path-sensitive typestate, decision tables, who-may-call"},
            {"name": "expand", "path": "expand/ corpus/", "serves_properties": ["C12", "C17", "C15"],
             "kind_free_text": "syn-based analysis of attribute-macro expansions (-Zunpretty=expanded)"},
        ],
        "checks": checks,
        "notes": "Technique family: static analysis only. Known findings and fixed defects: known_findings.json. "
                 "Mutant self-tests: tools/mut.py run. Seeded changes from independent sub-agents: seeded/.",
        "not_applicable": na,
    }
    with open(os.path.join(VERIF, "MANIFEST.json"), "w") as fh:
        json.dump(m, fh, indent=1)
    print("claimed:", [c["property_id"] for c in checks])
    print("not applicable:", [n["property_id"] for n in na])


if __name__ == "__main__":
    main()
