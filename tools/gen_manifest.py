#!/usr/bin/env python3
"""Regenerate /verif/MANIFEST.json from the rule modules that exist (rules/Cxx.py) and the table below."""
import importlib
import json
import os
import sys

VERIF = os.path.dirname(os.path.dirname(os.path.abspath(__file__)))
sys.path.insert(0, VERIF)

TECH = {
    "C01": "MIR path multiplicity/pairing rules over the polymorphic sample recorder (loops, roles by Fn type, unwind-path audit) + Sync-bound predicates and compile-fail witnesses; exactly-once-on-every-path rules (path summaries) for the per-kind input counting and for installing input counters",
    "C02": "MIR region rule between timestamp anchors (callee allow-list, no Drop), tally-bracket ordering, who-may-call, fence order; per-timer-kind cache rule for cached measurements",
    "C03": "MIR dominance/once-per-iteration rules on the sampling loop, constants and provenance of reported counts, fresh-sample-store-per-run (constructor/run/report in one loop iteration, single constructor); per-variant return tables of the BenchMode predicates (path summaries over discriminant tests)",
    "C04": "decision-DAG extraction of the sampling-loop condition over canonical comparison atoms, compared as a truth table with the documented rule; provenance of the two clocks; clock-start placement",
    "C05": "provenance role-pairing of StatsSet fields, index writer/reader agreement, division-guard discharge over every Div/Rem reachable from compute_stats/finish_leaf; path summaries of slice_middle / total_duration / iteration-count width; counter-list alignment (own-kind clear) rule",
    "C06": "MIR structural rules: ordering constants, use-after-release typestate, wait-loop dominance, counter/send provenance, trait-bound predicates; exactly-one-call rules with operand provenance on the type-erased hop (Task::run, trampoline)",
    "C07": "MIR structural rules: park-loop re-check, unpark control dependence, worker exit path, sender ownership, lock-scope audit, provenance of the unparked handle (per-broadcast caller)",
    "C08": "must-pass-through barrier placement on all recorder paths, barrier arity provenance, unwind-path audit of user-closure calls",
    "C09": "MIR forwarding rule (exactly-once, verbatim operands, result place), transitive callee-closure allow-list, thread-local type facts",
    "C10": "flow-sensitive path summaries of the tally functions (final value of every field on every path as canonical value expressions, no solver), hook/tally pairing by call multisets per path, enum/array table agreement",
    "C11": "MIR expression-shape rules (difference before conversion in either zero-clamping idiom, widen before multiply, multiply before divide, constants, operand widths) + type-range argument; structure of measure_precision (running minimum replaced only on Less, returned only after a measured comparison)",
    "C12": "syn analysis of attribute-macro expansions (-Zunpretty=expanded) against attributed items of the unexpanded source + MIR rules on list/tree insertion and on the unconditional pruning of empty argument lists",
    "C13": "polarity constants, per-path return values of FilterSet::is_match as canonical comparisons (path summaries), call-site placement of the filter callback per tree arm, naming-accessor agreement",
    "C14": "entry-point/action constant tables, dominance of the listing short-circuit, provenance of every should_ignore argument, print-site structure of the terse walk, exact-filter arm is whole-string equality; argument lines printed from the Leaf's own filtered list (canonical value expression); abstract content of the reused path buffer on every path through one loop iteration",
    "C15": "ADT-enumerated field-wise merge: per-field result on every path (path summaries: or-combiner or choice on the overriding side), all-origins provenance of the effective options, string-constant table agreement (CLI ids/env names/fields), ignore decision table, thread-count pipeline; attribute level via syn analysis of macro expansions (options as written); store-iff-present control-dependence rule on the CLI layer; sibling agreement of the counter-kind tables (KnownCounterKind::of / AnyCounter::new / count_inputs_as) over all Counter impls",
    "C16": "symmetric-comparator taint over all Ordering-returning functions, tie-breaker table, reversal wiring, mutator effect rule, derived-Ord field order",
    "C17": "provenance of label/index/runner in the Args arm, writers of Leaf.args, parallel-slice construction in BenchArgs::runner, TypeId check dominance; macro side via expansions; one shared argument cell and own type/const per instantiation via syn analysis of macro expansions",
    "C18": "constant-table agreement of scale thresholds/suffixes; canonical value expressions (static value numbering) for the truncation rule: result is a prefix of the exact rendering, cut positions, integer-truncated argument",
    "C19": "mode-machine constants (canonical threshold comparison, doubling as a linear form) and control dependence in the sampling loop, clear discipline (ADT-enumerated), per-round size store; structure of measure_precision (sentinel never reported); BenchMode predicate tables",
    "C20": "path-sensitive start/finish typestate with correlated-branch splitting, is_last provenance, width-constant agreement, column-table agreement; lower-bound (interval) evaluation of the name/column gap over canonical value expressions; column-predicate tables; start/finish position pairing",
}

LEVEL_TEXT = (
    "Static analysis of the type-checked program (MIR + type facts exported by a rustc_private driver; macro expansions "
    "via syn where stated). Each rule decides a stated structural clause exactly on every CFG path of the analysed "
    "configurations and is a necessary condition of the property; clauses that quantify over runtime values, schedules "
    "or clock histories are listed as not decided in DESIGN.md and in the evidence. Level `other`, not `proof`: the "
    "property as a whole is covered partially.")

NOT_BUILT = "rules not built yet (see DESIGN.md section 8); no check is claimed until it exists and has passed its self-tests"


def main():
    ids = [json.loads(l)["id"] for l in open(os.path.join(VERIF, "properties.jsonl"))]
    checks = []
    na = []
    extra_na = {}
    p = os.path.join(VERIF, "not_applicable.json")
    if os.path.exists(p):
        extra_na = json.load(open(p))
    for i in ids:
        if os.path.exists(os.path.join(VERIF, "rules", i + ".py")) and i not in extra_na:
            mod = importlib.import_module("rules." + i)
            nd = getattr(mod, "NOT_DECIDED", [])
            checks.append({
                "property_id": i,
                "quick_cmd": "./check %s --tier quick" % i,
                "thorough_cmd": "./check %s --tier thorough" % i,
                "evidence_file": "evidence/%s.json" % i,
                "replay_cmd_template": "./check %s --replay {path}" % i,
                "engine": "mirfacts+rules",
                "level_claimed": {"category": "other", "text": LEVEL_TEXT + " Clauses decided: " + mod.EXPLANATION,
                                  "design_ref": "DESIGN.md section 4, " + i},
                "level_note": "Trusted: rustc nightly front end/MIR construction/drop elaboration, Instance::try_resolve, "
                              "the semantics of std items named in allow-lists, the fact exporter and rule engine "
                              "(cross-checked by mutants/ and seeded/). Not decided: " + "; ".join(nd),
                "technique": TECH[i],
            })
        else:
            na.append({"property_id": i, "reason": extra_na.get(i, NOT_BUILT)})
    m = {
        "version": 1,
        "setup_cmd": "./setup.sh",
        "hooks": {
            "guard": "divan_verif",
            "enable": "none needed: the checks analyse /repo's unmodified source (cargo +nightly check with the mirfacts "
                      "driver as RUSTC_WORKSPACE_WRAPPER); the guard name is reserved and unused",
            "baseline_off_cmd": "cd /repo && cargo test --workspace --no-fail-fast --offline",
            "source_commits": [],
            "add_only": True,
        },
        "engines": [
            {"name": "mirfacts", "path": "driver/", "serves_properties": ids,
             "kind_free_text": "rustc_private driver exporting structured MIR, resolved callees and type facts as JSON"},
            {"name": "rules", "path": "lib/ rules/ check", "serves_properties": ids,
             "kind_free_text": "Python rule engine: CFG/dominance/loops, provenance (with path-merge markers), path-sensitive typestate, canonical value expressions, flow-sensitive path summaries, decision tables, who-may-call"},
            {"name": "expand", "path": "expand/ corpus/", "serves_properties": ["C12", "C17", "C15"],
             "kind_free_text": "syn-based analysis of attribute-macro expansions (-Zunpretty=expanded)"},
        ],
        "checks": checks,
        "notes": "Technique family: static analysis only. Known findings and fixed defects: known_findings.json. "
                 "Positive controls: mutants/ (tools/mut.py run; also applied by every thorough-tier run) and seeded/ (independent sub-agents). Silence tests on behaviour-preserving refactors: refactors/ (tools/mut.py refactor-run).",
        "not_applicable": na,
    }
    with open(os.path.join(VERIF, "MANIFEST.json"), "w") as fh:
        json.dump(m, fh, indent=1)
    print("claimed:", [c["property_id"] for c in checks])
    print("not applicable:", [n["property_id"] for n in na])


if __name__ == "__main__":
    main()
