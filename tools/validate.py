#!/usr/bin/env python3-vt
"""Validate MANIFEST.json and every evidence file against the harness schemas (uses the tooling venv's jsonschema)."""
import glob, json, sys
import jsonschema
ok = True
m = json.load(open('/verif/MANIFEST.json'))
jsonschema.validate(m, json.load(open('/root/.vp/MANIFEST.schema.json')))
print('MANIFEST.json valid; claimed', len(m['checks']), 'not_applicable', len(m.get('not_applicable', [])))
es = json.load(open('/root/.vp/EVIDENCE.schema.json'))
for f in sorted(glob.glob('/verif/evidence/*.json')):
    try:
        jsonschema.validate(json.load(open(f)), es)
        print(f, 'valid')
    except Exception as e:
        ok = False
        print(f, 'INVALID', str(e)[:300])
sys.exit(0 if ok else 1)
