#!/usr/bin/env python3
"""Seeded changes from independent sub-agents.

  tools/seed.py import  <id> <worktree>            copy <worktree>/SEED into seeded/<id>/
  tools/seed.py confirm <id> <worktree> -- <demo command>
        in the scratch worktree: existing suite with the change (must pass), demo with the change (must fail),
        demo without the change (must pass); results are stored in seeded/<id>/meta.json
  tools/seed.py check   <id> [prop ...]            apply seeded/<id>/patch.diff to a fresh scratch copy of /repo and run the
                                                   property checks against it (VERIF_REPO); records which checks report it
  tools/seed.py checkall                            `check` for every stored seed (claimed property only) - regression run
"""
import json
import os
import re
import shutil
import subprocess
import sys
import tempfile

VERIF = os.path.dirname(os.path.dirname(os.path.abspath(__file__)))
sys.path.insert(0, os.path.join(VERIF, "tools"))
import mut  # noqa: E402


def meta_path(i):
    return os.path.join(VERIF, "seeded", i, "meta.json")


def load_meta(i):
    p = meta_path(i)
    return json.load(open(p)) if os.path.exists(p) else {}


def save_meta(i, m):
    with open(meta_path(i), "w") as fh:
        json.dump(m, fh, indent=1)


def cmd_import(i, wt):
    dst = os.path.join(VERIF, "seeded", i)
    os.makedirs(dst, exist_ok=True)
    src = os.path.join(wt, "SEED")
    shutil.copy(os.path.join(src, "patch.diff"), os.path.join(dst, "patch.diff"))
    if os.path.isdir(os.path.join(src, "demo")):
        shutil.rmtree(os.path.join(dst, "demo"), ignore_errors=True)
        shutil.copytree(os.path.join(src, "demo"), os.path.join(dst, "demo"))
    am = {}
    if os.path.exists(os.path.join(src, "meta.json")):
        try:
            am = json.load(open(os.path.join(src, "meta.json")))
        except ValueError:
            am = {"raw": open(os.path.join(src, "meta.json")).read()}
    m = load_meta(i)
    m.update({"id": i, "property": am.get("property", i.split("-")[0]), "source": "independent sub-agent given only the property text and a scratch worktree",
              "agent_report": am})
    save_meta(i, m)
    print("imported", i)


def run(cmd, cwd, env=None, timeout=3600):
    e = dict(os.environ, CARGO_NET_OFFLINE="true")
    if env:
        e.update(env)
    r = subprocess.run(cmd, cwd=cwd, env=e, shell=isinstance(cmd, str), capture_output=True, text=True, timeout=timeout)
    return r.returncode, r.stdout + r.stderr


def test_counts(out):
    p = f = 0
    for m in re.finditer(r"test result: \w+\. (\d+) passed; (\d+) failed", out):
        p += int(m.group(1))
        f += int(m.group(2))
    return p, f


def cmd_confirm(i, wt, demo_cmd):
    # refs/stash is shared by all worktrees of /repo: two confirmations at once would pop each other's stash
    import fcntl
    lock = open("/tmp/verif-seed-confirm.lock", "w")
    fcntl.flock(lock, fcntl.LOCK_EX)
    env = {"CARGO_TARGET_DIR": os.path.join(wt, "target")}
    patch = os.path.join(VERIF, "seeded", i, "patch.diff")
    # make sure the change is applied
    rc, _ = run(["git", "apply", "--check", "-R", patch], wt)
    if rc != 0:
        rc2, out = run(["git", "apply", patch], wt)
        if rc2 != 0:
            sys.exit("cannot apply patch: " + out)
    # existing suite on clean HEAD + the library change only (demo files and Cargo.toml additions stashed away)
    run(["git", "stash", "-u"], wt)
    rc_a, out_a = run(["git", "apply", patch], wt)
    if rc_a != 0:
        run(["git", "stash", "pop"], wt)
        sys.exit("cannot apply patch on clean HEAD: " + out_a)
    rc_s, out_s = run("cargo test --workspace --no-fail-fast --offline", wt, env)
    ps, fs = test_counts(out_s)
    run(["git", "checkout", "--", "."], wt)
    rc_p, out_p = run(["git", "stash", "pop"], wt)
    if rc_p != 0:
        sys.exit("stash pop failed: " + out_p)
    rc_d1, out_d1 = run(demo_cmd, wt, env)
    run(["git", "apply", "-R", patch], wt)
    rc_d0, out_d0 = run(demo_cmd, wt, env)
    run(["git", "apply", patch], wt)
    m = load_meta(i)
    m["confirmed_by_me"] = {
        "existing_suite_with_change": {"exit": rc_s, "passed": ps, "failed": fs, "cmd": "cargo test --workspace --no-fail-fast --offline"},
        "demo_cmd": demo_cmd,
        "demo_with_change": {"exit": rc_d1, "tail": out_d1[-1500:]},
        "demo_without_change": {"exit": rc_d0, "tail": out_d0[-600:]},
        "ok": rc_s == 0 and fs == 0 and rc_d1 != 0 and rc_d0 == 0,
    }
    save_meta(i, m)
    print(i, "suite exit=%d passed=%d failed=%d | demo with=%d without=%d | ok=%s" % (rc_s, ps, fs, rc_d1, rc_d0, m["confirmed_by_me"]["ok"]))


def claimed():
    man = json.load(open(os.path.join(VERIF, "MANIFEST.json")))
    return [c["property_id"] for c in man["checks"]]


def cmd_check(i, props, cache=None):
    patch = os.path.join(VERIF, "seeded", i, "patch.diff")
    d = tempfile.mkdtemp(prefix="verif-seedrun-")
    res = {}
    try:
        mut.copy_repo(d)
        r = subprocess.run(["patch", "-p1", "-s", "-i", patch], cwd=d, capture_output=True, text=True)
        if r.returncode != 0:
            sys.exit("patch does not apply to /repo: " + r.stdout + r.stderr)
        for p in props or claimed():
            rc, viol, out = mut.run_check(p, d, cache=cache)
            res[p] = {"exit": rc, "violations": viol}
            print("%s vs %s: exit=%d %s" % (i, p, rc, viol[:3]))
    finally:
        shutil.rmtree(d, ignore_errors=True)
    m = load_meta(i)
    m.setdefault("checks", {}).update(res)
    m["caught_by"] = sorted(p for p, r in m["checks"].items() if r["exit"] == 1)
    m["what_i_ran"] = "tools/seed.py check %s (scratch copy of /repo with patch.diff applied, checks run with VERIF_REPO=<copy>)" % i
    save_meta(i, m)
    return res


if __name__ == "__main__":
    a = sys.argv[1:]
    if not a:
        sys.exit(__doc__)
    if a[0] == "import":
        cmd_import(a[1], a[2])
    elif a[0] == "confirm":
        k = a.index("--")
        cmd_confirm(a[1], a[2], " ".join(a[k + 1:]))
    elif a[0] == "check":
        cmd_check(a[1], a[2:])
    elif a[0] == "checkall":
        # tools/seed.py checkall [-j N]: N seeds at a time, each worker with its own extraction cache slot
        from concurrent.futures import ThreadPoolExecutor
        jobs = int(a[a.index("-j") + 1]) if "-j" in a else 1
        cl = claimed()
        todo = [(i, load_meta(i).get("property")) for i in sorted(os.listdir(os.path.join(VERIF, "seeded")))]
        todo = [(i, p) for i, p in todo if p in cl]
        lists = [todo[k::jobs] for k in range(jobs)]

        def work(args):
            k, lst = args
            n = 0
            for i, prop in lst:
                r = cmd_check(i, [prop], cache=os.path.join(VERIF, ".cache", "mutslots", "s%d" % k) if jobs > 1 else None)
                n += 0 if r[prop]["exit"] == 1 else 1
            return n
        with ThreadPoolExecutor(max_workers=jobs) as ex:
            bad = sum(ex.map(work, enumerate(lists)))
        print("%d seeds, %d not reported" % (len(todo), bad))
        for k in range(jobs):
            shutil.rmtree(os.path.join(VERIF, ".cache", "mutslots", "s%d" % k), ignore_errors=True)
        sys.exit(1 if bad else 0)
