#!/usr/bin/env python3
"""Pretty-print bodies from the fact files: tools/dump.py <path-suffix> [cfg] [crate]"""
import sys, os
sys.path.insert(0, os.path.dirname(os.path.dirname(os.path.abspath(__file__))))
from lib import extract
from lib.facts import Program, norm

def pl(p):
    s = "_%d" % p["l"]
    for pr in p["proj"]:
        k = pr["k"]
        if k == "deref": s = "(*%s)" % s
        elif k == "field": s += ".%s" % (pr["name"] if pr["name"] is not None else pr["i"])
        elif k == "downcast": s = "(%s as %s)" % (s, pr["name"])
        elif k == "index": s += "[_%d]" % pr["l"]
        else: s += "[%s]" % k
    return s
def op(o):
    if o["k"] in ("copy", "move"): return o["k"] + " " + pl(o["p"])
    if o["k"] == "const": return "const " + o["c"]["d"]
    return str(o)
def rv(r):
    k = r["k"]
    if k == "use": return op(r["o"])
    if k == "ref": return ("&mut " if r["mut"] else "&") + pl(r["p"])
    if k == "rawptr": return "&raw " + pl(r["p"])
    if k == "cast": return "%s as %s (%s)" % (op(r["o"]), r["ty"], r["ck"])
    if k == "binop": return "%s(%s, %s)" % (r["op"], op(r["a"]), op(r["b"]))
    if k == "unop": return "%s(%s)" % (r["op"], op(r["o"]))
    if k == "discr": return "discriminant(%s)" % pl(r["p"])
    if k == "agg":
        h = r["ak"]
        if h == "adt": h = "%s::%s{%s}" % (norm(r["adt"]), r["variant"], ",".join(r["fields"]))
        if h == "closure": h = "closure " + norm(r["def"])
        return "%s(%s)" % (h, ", ".join(op(o) for o in r["ops"]))
    return str(r)
def dump(b):
    print("fn %s  [%s, promoted=%d, args=%d] captures=%s" % (b.path, b.kind, b.promoted, b.arg_count, b.captures))
    for l, n in sorted(b.names.items()): print("   let _%d = %s : %s" % (l, n, b.local_ty(l)))
    live = b.live
    for i, bl in enumerate(b.blocks):
        print("  bb%d%s%s:" % (i, " (cleanup)" if bl["cleanup"] else "", "" if i in live or bl["cleanup"] else " (dead)"))
        for s in bl["stmts"]:
            if s["k"] == "assign": print("      %s = %s" % (pl(s["p"]), rv(s["rv"])))
            else: print("      %s" % s)
        t = bl["term"]; k = t["k"]
        if k == "call":
            c = b.call_at(i)
            print("      %s = CALL %s [%s] (%s) -> bb%s unwind %s   @%s" % (pl(t["dest"]), c.name, c.callee if c.name != c.callee else "", ", ".join(op(a) for a in t["args"]), t["t"], t["unwind"], t["span"]["line"]))
        elif k == "switch": print("      switch %s %s else bb%d" % (op(t["discr"]), t["arms"], t["otherwise"]))
        elif k == "drop": print("      DROP %s : %s -> bb%d unwind %s" % (pl(t["p"]), t["ty"], t["t"], t["unwind"]))
        elif k == "assert": print("      assert %s == %s (%s) -> bb%d" % (op(t["cond"]), t["expected"], t["kind"], t["t"]))
        elif k == "goto": print("      goto bb%d" % t["t"])
        else: print("      %s" % k)
if __name__ == "__main__":
    cfg = sys.argv[2] if len(sys.argv) > 2 else "K1"
    crate = sys.argv[3] if len(sys.argv) > 3 else "divan"
    P = Program(extract.extract(cfg), cfg)
    bs = P.find(sys.argv[1], crate)
    if not bs:
        bs = [b for b in P.lib_bodies(crate) if sys.argv[1] in b.path]
    for b in bs:
        dump(b)
        for (ck, p, pr), pb in P.bodies.items():
            if ck == crate and p == b.path and pr >= 0: dump(pb)
