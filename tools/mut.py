#!/usr/bin/env python3
"""Mutant workflow (scratch copies live under /tmp and are removed when done).

  tools/mut.py new  <name>                 copy /repo to /tmp/verif-mut/<name> (no target/, no .git)
  tools/mut.py save <name> <prop> [why]    diff against /repo -> mutants/<prop>/<name>.patch, confirm it compiles,
                                           run ./check <prop> on it, record the violated rules; remove the copy
  tools/mut.py run  [prop ...] [-j N]      apply every stored mutant to a fresh scratch copy and assert that the
                                           property's check reports it (exit 1, recorded rule among the violations)
  tools/mut.py try  <name> <prop>          run the check on the scratch copy without saving
"""
import json
import os
import shutil
import subprocess
import sys
import tempfile
from concurrent.futures import ThreadPoolExecutor

VERIF = os.path.dirname(os.path.dirname(os.path.abspath(__file__)))
REPO = "/repo"
SCR = "/tmp/verif-mut"


def copy_repo(dst):
    shutil.rmtree(dst, ignore_errors=True)
    os.makedirs(os.path.dirname(dst), exist_ok=True)
    subprocess.check_call(["rsync", "-a", "--exclude", "target", "--exclude", ".git", REPO + "/", dst + "/"])


def run_check(prop, repo, cache=None, tier="quick"):
    env = dict(os.environ, VERIF_REPO=repo, VERIF_NO_EVIDENCE="1")
    if cache:
        env["VERIF_CACHE"] = cache
    r = subprocess.run([os.path.join(VERIF, "check"), prop, "--tier", tier], cwd=VERIF, env=env,
                       capture_output=True, text=True)
    viol = []
    for line in r.stdout.splitlines():
        line = line.strip()
        if line.startswith("violation "):
            viol.append(line[len("violation "):])
    if r.returncode not in (0, 1):
        # keep the evidence of an analysis error (exit 2): these must never be transient
        try:
            with open("/tmp/verif-exit%d-%s-%d.log" % (r.returncode, prop, os.getpid()), "w") as fh:
                fh.write("repo=%s cache=%s\n" % (repo, cache))
                fh.write(r.stdout[-6000:] + "\n--- stderr ---\n" + r.stderr[-6000:])
        except OSError:
            pass
    return r.returncode, viol, r.stdout + r.stderr


def compiles(repo):
    sys.path.insert(0, VERIF)
    from lib import extract as _ex
    _ex.invalidate_workspace(os.path.join(VERIF, ".cache", "target", "mutcheck"),
                             extra=("attr_options", "entry_properties", "forbid_unsafe", "weird_usage", "internals"))
    env = dict(os.environ, CARGO_NET_OFFLINE="true", CARGO_TARGET_DIR=os.path.join(VERIF, ".cache", "target", "mutcheck"))
    r = subprocess.run(["cargo", "check", "--offline", "--workspace", "--all-targets", "-q"], cwd=repo, env=env,
                       capture_output=True, text=True)
    return r.returncode == 0, r.stderr[-3000:]


def cmd_new(name):
    copy_repo(os.path.join(SCR, name))
    print(os.path.join(SCR, name))


def cmd_try(name, prop):
    rc, viol, out = run_check(prop, os.path.join(SCR, name))
    print(out)


def cmd_save(name, prop, why=""):
    d = os.path.join(SCR, name)
    r = subprocess.run(["diff", "-ruN", "--exclude=target", "--exclude=.git", "--exclude=Cargo.lock", REPO, d],
                       capture_output=True, text=True)
    patch = r.stdout.replace(d + "/", "b/").replace(REPO + "/", "a/")
    if not patch.strip():
        sys.exit("empty diff")
    ok, err = compiles(d)
    if not ok:
        print(err)
        sys.exit("mutant does not compile")
    rc, viol, out = run_check(prop, d)
    print(out)
    os.makedirs(os.path.join(VERIF, "mutants", prop), exist_ok=True)
    with open(os.path.join(VERIF, "mutants", prop, name + ".patch"), "w") as fh:
        fh.write(patch)
    meta = {"property": prop, "name": name, "why": why, "expect_exit": 1,
            "expect_rules": sorted({v.split("|")[0] for v in viol}), "observed_violations": viol}
    with open(os.path.join(VERIF, "mutants", prop, name + ".json"), "w") as fh:
        json.dump(meta, fh, indent=1)
    print("saved; exit=%d rules=%s" % (rc, meta["expect_rules"]))
    if rc != 1:
        print("WARNING: check did not report this mutant")
    shutil.rmtree(d, ignore_errors=True)


def one_mutant(args):
    prop, name, slot = args
    meta = json.load(open(os.path.join(VERIF, "mutants", prop, name + ".json")))
    d = tempfile.mkdtemp(prefix="verif-mutrun-")
    try:
        copy_repo(d)
        r = subprocess.run(["patch", "-p1", "-s", "-i", os.path.join(VERIF, "mutants", prop, name + ".patch")], cwd=d,
                           capture_output=True, text=True)
        if r.returncode != 0:
            return (prop, name, False, "patch does not apply: " + r.stdout + r.stderr)
        cache = os.path.join(VERIF, ".cache", "mutslots", str(slot))
        rc, viol, out = run_check(prop, d, cache=cache)
        rules = {v.split("|")[0] for v in viol}
        want = set(meta.get("expect_rules", []))
        ok = rc == 1 and (not want or bool(want & rules))
        return (prop, name, ok, "exit=%d rules=%s want=%s" % (rc, sorted(rules), sorted(want)))
    finally:
        shutil.rmtree(d, ignore_errors=True)


def cmd_run(props, jobs=6):
    todo = []
    root = os.path.join(VERIF, "mutants")
    for prop in sorted(os.listdir(root)):
        if (props and prop not in props) or not os.path.isdir(os.path.join(root, prop)):
            continue
        for f in sorted(os.listdir(os.path.join(root, prop))):
            if f.endswith(".patch"):
                todo.append((prop, f[:-6]))
    todo = [(p, n, i % jobs) for i, (p, n) in enumerate(todo)]
    # one worker per slot so a slot's cargo target dir is never shared
    by_slot = {}
    for t in todo:
        by_slot.setdefault(t[2], []).append(t)
    results = []

    def work(lst):
        return [one_mutant(t) for t in lst]
    with ThreadPoolExecutor(max_workers=jobs) as ex:
        for res in ex.map(work, by_slot.values()):
            results.extend(res)
    bad = 0
    for prop, name, ok, msg in sorted(results):
        print("%-5s %-40s %s  %s" % (prop, name, "caught" if ok else "MISSED", msg))
        bad += 0 if ok else 1
    print("%d mutants, %d missed" % (len(results), bad))
    for k in range(jobs):
        shutil.rmtree(os.path.join(VERIF, ".cache", "mutslots", str(k)), ignore_errors=True)
    if not bad and not props:
        # reference tree for the thorough tier's self-test (lib/engine.py selftest): on this tree every control is reported
        sys.path.insert(0, VERIF)
        from lib import extract as _ex
        with open(os.path.join(VERIF, "mutants", "VERIFIED.json"), "w") as fh:
            json.dump({"tree": _ex.tree_hash(REPO), "mutants": len(results), "what": "tools/mut.py run: every stored mutant reported by its property's check"}, fh, indent=1)
    return 1 if bad else 0


if __name__ == "__main__":
    a = sys.argv[1:]
    if not a:
        sys.exit(__doc__)
    if a[0] == "new":
        cmd_new(a[1])
    elif a[0] == "try":
        cmd_try(a[1], a[2])
    elif a[0] == "save":
        cmd_save(a[1], a[2], " ".join(a[3:]))
    elif a[0] == "refactor-save":
        # behaviour-preserving refactor: every check must stay silent on it
        name = a[1]
        d = os.path.join(SCR, name)
        r = subprocess.run(["diff", "-ruN", "--exclude=target", "--exclude=.git", "--exclude=Cargo.lock", REPO, d], capture_output=True, text=True)
        patch = r.stdout.replace(d + "/", "b/").replace(REPO + "/", "a/")
        if not patch.strip():
            sys.exit("empty diff")
        ok, err = compiles(d)
        if not ok:
            print(err)
            sys.exit("refactor does not compile")
        os.makedirs(os.path.join(VERIF, "refactors"), exist_ok=True)
        with open(os.path.join(VERIF, "refactors", name + ".patch"), "w") as fh:
            fh.write(patch)
        with open(os.path.join(VERIF, "refactors", name + ".txt"), "w") as fh:
            fh.write(" ".join(a[2:]) + "\n")
        shutil.rmtree(d, ignore_errors=True)
        print("saved refactor", name)
    elif a[0] == "refactor-run":
        # tools/mut.py refactor-run [-j N] [names...]: N refactors at a time, each worker with its own cache slot
        man = json.load(open(os.path.join(VERIF, "MANIFEST.json")))
        props = [c["property_id"] for c in man["checks"]]
        rest = a[1:]
        jobs = 1
        if "-j" in rest:
            k = rest.index("-j")
            jobs = int(rest[k + 1])
            rest = rest[:k] + rest[k + 2:]
        names = [f[:-6] for f in sorted(os.listdir(os.path.join(VERIF, "refactors"))) if f.endswith(".patch") and (not rest or f[:-6] in rest)]

        def one_refactor(name, slot):
            d = tempfile.mkdtemp(prefix="verif-refrun-")
            try:
                copy_repo(d)
                r = subprocess.run(["patch", "-p1", "-s", "-i", os.path.join(VERIF, "refactors", name + ".patch")], cwd=d, capture_output=True, text=True)
                if r.returncode != 0:
                    print("%-28s patch does not apply" % name, flush=True)
                    return 1
                alarms = []
                for p_ in props:
                    rc, viol, out = run_check(p_, d, cache=os.path.join(VERIF, ".cache", "mutslots", slot))
                    if rc != 0:
                        alarms.append((p_, rc, viol[:3]))
                print("%-28s %s" % (name, "silent on all %d checks" % len(props) if not alarms else "FALSE ALARMS: %s" % alarms), flush=True)
                return 1 if alarms else 0
            finally:
                shutil.rmtree(d, ignore_errors=True)

        def work(args):
            k, lst = args
            return sum(one_refactor(n_, "r%d" % k if jobs > 1 else "r") for n_ in lst)
        with ThreadPoolExecutor(max_workers=jobs) as ex:
            bad = sum(ex.map(work, enumerate([names[k::jobs] for k in range(jobs)])))
        print("%d refactors, %d with false alarms" % (len(names), bad))
        # the per-worker extraction caches hold one compiled copy per variant: remove them (disk is limited)
        for k in range(jobs):
            shutil.rmtree(os.path.join(VERIF, ".cache", "mutslots", "r%d" % k if jobs > 1 else "r"), ignore_errors=True)
        sys.exit(1 if bad else 0)
    elif a[0] == "verify":
        # re-confirm that every stored mutant still applies and compiles (sequential: one shared target dir)
        bad = 0
        root = os.path.join(VERIF, "mutants")
        for prop in sorted(os.listdir(root)):
            if (a[1:] and prop not in a[1:]) or not os.path.isdir(os.path.join(root, prop)):
                continue
            for f in sorted(os.listdir(os.path.join(root, prop))):
                if not f.endswith(".patch"):
                    continue
                d = tempfile.mkdtemp(prefix="verif-mutverify-")
                try:
                    copy_repo(d)
                    r = subprocess.run(["patch", "-p1", "-s", "-i", os.path.join(root, prop, f)], cwd=d, capture_output=True, text=True)
                    ok = r.returncode == 0
                    msg = "patch does not apply" if not ok else ""
                    if ok:
                        ok, err = compiles(d)
                        msg = "" if ok else "does not compile"
                    print("%-5s %-12s %s %s" % (prop, f[:-6], "ok" if ok else "BAD", msg), flush=True)
                    bad += 0 if ok else 1
                finally:
                    shutil.rmtree(d, ignore_errors=True)
        sys.exit(1 if bad else 0)
    elif a[0] == "run":
        jobs = 6
        rest = a[1:]
        if "-j" in rest:
            i = rest.index("-j")
            jobs = int(rest[i + 1])
            rest = rest[:i] + rest[i + 2:]
        sys.exit(cmd_run(rest, jobs))
