#!/bin/sh
# tools/seed_in.sh <id> [extra props...] : import a finished seed from /tmp/seed/<id> and run its property's check (+ extras)
id="$1"; shift
prop="${id%-*}"
cd /verif
python3 tools/seed.py import "$id" "/tmp/seed/$id" 2>&1 | tail -1
python3 tools/seed.py check "$id" "$prop" "$@" 2>&1 | grep " vs " | cut -c1-420
