#!/usr/bin/env python3
"""Regenerate the generated tables of DESIGN.md (between <!-- X-BEGIN --> / <!-- X-END --> markers) from seeded/,
mutants/, refactors/ and evidence/."""
import glob
import json
import os
import re

VERIF = os.path.dirname(os.path.dirname(os.path.abspath(__file__)))


def seeds():
    rows = ["| Seed | Change (one line) | Needs to manifest | Suite / demo confirmed | Reported by (rule) | History |", "|---|---|---|---|---|---|"]
    for f in sorted(glob.glob(os.path.join(VERIF, "seeded", "*", "meta.json"))):
        m = json.load(open(f))
        ar = m.get("agent_report", {}) if isinstance(m.get("agent_report"), dict) else {}
        cb = m.get("confirmed_by_me", {})
        v = m.get("checks", {}).get(m["property"], {}).get("violations", [])
        others = sorted(p for p in (m.get("caught_by") or []) if p != m["property"])
        def cut(s, n):
            s = (s or "").replace("\n", " ").replace("|", "/")
            return s if len(s) <= n else s[:n - 1].rsplit(" ", 1)[0] + " …"
        rows.append("| %s | %s | %s | %s | %s%s | %s |" % (
            m["id"], cut(ar.get("summary"), 230), cut(m.get("needs_to_manifest") or ar.get("needs_to_manifest"), 200),
            ("suite %d/%d pass; demo fails with, passes without" % (cb["existing_suite_with_change"]["passed"], cb["existing_suite_with_change"]["passed"] + cb["existing_suite_with_change"]["failed"])) if cb.get("ok") else "NOT CONFIRMED",
            ", ".join(sorted({x.split("|")[0] for x in v})) or "—", (" (also " + ", ".join(others) + ")") if others else "",
            "missed at first → rule added" if "MISSED" in m.get("history", "") else "reported at first run"))
    n = len(rows) - 2
    missed = sum(1 for r in rows[2:] if "missed at first" in r)
    head = ("%d seeded changes confirmed; %d were reported by the claiming property's check on its first run, %d were missed at first "
            "and led to a new or strengthened rule (every one is reported now: `tools/seed.py checkall`).\n\n" % (n, n - missed, missed))
    return head + "\n".join(rows)


def coverage():
    rows = ["| Prop | Rules (instances, quick tier K1) | Obligations quick | Mutants | Seeds |", "|---|---|---|---|---|"]
    for i in range(1, 21):
        p = "C%02d" % i
        try:
            ev = json.load(open(os.path.join(VERIF, "evidence", p + ".json")))
        except OSError:
            continue
        ri = ev["coverage"].get("rule_instances", {})
        nm = len(glob.glob(os.path.join(VERIF, "mutants", p, "*.patch")))
        sd = sorted(os.path.basename(os.path.dirname(f)) for f in glob.glob(os.path.join(VERIF, "seeded", p + "-*", "meta.json")))
        rows.append("| %s | %s | %s | %d | %s |" % (p, ", ".join("%s×%d" % (r, n) for r, n in ri.items()), ev["coverage"]["obligations"] if ev.get("tier") == "quick" else "(thorough run: %d)" % ev["coverage"]["obligations"], nm, ", ".join(sd)))
    return "\n".join(rows)


def refactors():
    rows = ["| Refactor | What it changes |", "|---|---|"]
    for f in sorted(glob.glob(os.path.join(VERIF, "refactors", "*.txt"))):
        rows.append("| %s | %s |" % (os.path.basename(f)[:-4], open(f).read().strip().replace("|", "/")))
    return "\n".join(rows)


def main():
    p = os.path.join(VERIF, "DESIGN.md")
    s = open(p).read()
    for tag, fn in (("SEEDS", seeds), ("COVERAGE", coverage), ("REFACTORS", refactors)):
        pat = re.compile(r"(<!-- %s-BEGIN -->\n)(.*?)(<!-- %s-END -->)" % (tag, tag), re.S)
        if pat.search(s):
            s = pat.sub(lambda m: m.group(1) + fn() + "\n" + m.group(3), s)
    open(p, "w").write(s)


if __name__ == "__main__":
    main()
