#![feature(rustc_private)]
// E1 `mirfacts`: rustc_private driver exporting structured MIR + type facts as JSON.
// Injected through RUSTC_WORKSPACE_WRAPPER under `cargo +nightly check`; see /verif/DESIGN.md section 2.
extern crate rustc_abi;
extern crate rustc_driver;
extern crate rustc_hir;
extern crate rustc_interface;
extern crate rustc_middle;
extern crate rustc_span;

use rustc_driver::Compilation;
use rustc_hir::def::DefKind;
use rustc_hir::def_id::DefId;
use rustc_middle::mir::{
    self, AggregateKind, BasicBlock, Body, Const, ConstValue, Operand, Place, ProjectionElem,
    Rvalue, StatementKind, TerminatorKind, UnwindAction,
};
use rustc_middle::ty::{self, Instance, Ty, TyCtxt, TypeVisitableExt, TypingEnv};
use std::fmt::Write as _;

fn js(s: &str) -> String {
    let mut o = String::with_capacity(s.len() + 2);
    o.push('"');
    for c in s.chars() {
        match c {
            '"' => o.push_str("\\\""),
            '\\' => o.push_str("\\\\"),
            '\n' => o.push_str("\\n"),
            '\t' => o.push_str("\\t"),
            '\r' => o.push_str("\\r"),
            c if (c as u32) < 0x20 => {
                let _ = write!(o, "\\u{:04x}", c as u32);
            }
            c => o.push(c),
        }
    }
    o.push('"');
    o
}

struct Cx<'tcx> {
    tcx: TyCtxt<'tcx>,
}

impl<'tcx> Cx<'tcx> {
    fn span(&self, sp: rustc_span::Span) -> String {
        let sm = self.tcx.sess.source_map();
        let lo = sm.lookup_char_pos(sp.lo());
        format!(
            "{{\"file\":{},\"line\":{},\"col\":{},\"exp\":{}}}",
            js(&format!("{}", lo.file.name.prefer_local_unconditionally())),
            lo.line,
            lo.col.0 + 1,
            sp.from_expansion()
        )
    }

    fn place(&self, body: &Body<'tcx>, p: &Place<'tcx>) -> String {
        let mut proj = Vec::new();
        let mut ty = mir::PlaceTy::from_ty(body.local_decls[p.local].ty);
        for elem in p.projection.iter() {
            let s = match elem {
                ProjectionElem::Deref => "{\"k\":\"deref\"}".to_string(),
                ProjectionElem::Field(f, _) => {
                    // field name if ADT
                    let name = match ty.ty.kind() {
                        ty::Adt(adt, _) => {
                            let v = match ty.variant_index {
                                Some(v) => v,
                                None => rustc_abi::FIRST_VARIANT,
                            };
                            if adt.is_enum() && ty.variant_index.is_none() {
                                None
                            } else {
                                adt.variant(v).fields.get(f).map(|fd| fd.name.to_string())
                            }
                        }
                        _ => None,
                    };
                    format!(
                        "{{\"k\":\"field\",\"i\":{},\"name\":{}}}",
                        f.as_usize(),
                        name.map(|n| js(&n)).unwrap_or("null".into())
                    )
                }
                ProjectionElem::Downcast(name, v) => format!(
                    "{{\"k\":\"downcast\",\"v\":{},\"name\":{}}}",
                    v.as_usize(),
                    name.map(|n| js(n.as_str())).unwrap_or("null".into())
                ),
                ProjectionElem::Index(l) => format!("{{\"k\":\"index\",\"l\":{}}}", l.as_usize()),
                ProjectionElem::ConstantIndex { offset, from_end, .. } => {
                    format!("{{\"k\":\"cindex\",\"o\":{},\"from_end\":{}}}", offset, from_end)
                }
                ProjectionElem::Subslice { from, to, from_end } => {
                    format!("{{\"k\":\"subslice\",\"from\":{},\"to\":{},\"from_end\":{}}}", from, to, from_end)
                }
                other => format!("{{\"k\":\"other\",\"d\":{}}}", js(&format!("{:?}", other))),
            };
            proj.push(s);
            ty = ty.projection_ty(self.tcx, elem);
        }
        format!(
            "{{\"l\":{},\"proj\":[{}],\"ty\":{}}}",
            p.local.as_usize(),
            proj.join(","),
            js(&format!("{}", ty.ty))
        )
    }

    fn constant(&self, c: &Const<'tcx>) -> String {
        let ty = c.ty();
        let mut extra = String::new();
        // fn item constants
        if let ty::FnDef(did, _) = ty.kind() {
            let _ = write!(extra, ",\"fn\":{}", js(&self.tcx.def_path_str(*did)));
        }
        if let Const::Val(cv, _) = c {
            match cv {
                ConstValue::Scalar(s) => {
                    match s {
                        mir::interpret::Scalar::Int(int) => {
                            let _ = write!(extra, ",\"bits\":\"{}\",\"size\":{}", int.to_bits_unchecked(), int.size().bytes());
                        }
                        mir::interpret::Scalar::Ptr(ptr, _) => {
                            let aid = ptr.provenance.alloc_id();
                            if let Some(ga) = self.tcx.try_get_global_alloc(aid) {
                                match ga {
                                    mir::interpret::GlobalAlloc::Static(sdid) => {
                                        let _ = write!(extra, ",\"static\":{}", js(&self.tcx.def_path_str(sdid)));
                                    }
                                    mir::interpret::GlobalAlloc::Function { instance } => {
                                        let _ = write!(extra, ",\"fnptr\":{}", js(&self.tcx.def_path_str(instance.def_id())));
                                    }
                                    _ => {}
                                }
                            }
                        }
                    }
                }
                ConstValue::ZeroSized => {
                    extra.push_str(",\"zst\":true");
                }
                _ => {}
            }
        }
        if let Const::Unevaluated(uv, _) = c {
            // evaluate non-generic named constants so tables of constants are data (e.g. picos::DAY, DEFAULT_SAMPLE_COUNT)
            if uv.promoted.is_none() && !c.has_param() && ty.is_integral() {
                if let Some(int) = c.try_eval_scalar_int(self.tcx, TypingEnv::fully_monomorphized()) {
                    let _ = write!(extra, ",\"bits\":\"{}\",\"size\":{}", int.to_bits_unchecked(), int.size().bytes());
                }
            }
            let _ = write!(extra, ",\"uneval\":{},\"promoted\":{},\"udid\":{}", js(&self.tcx.def_path_str(uv.def)), uv.promoted.map(|p| p.as_usize() as i64).unwrap_or(-1),
                if uv.def.is_local() { uv.def.index.as_u32() as i64 } else { -1 });
        }
        format!("{{\"ty\":{},\"d\":{}{}}}", js(&format!("{}", ty)), js(&format!("{}", c)), extra)
    }

    fn operand(&self, body: &Body<'tcx>, o: &Operand<'tcx>) -> String {
        match o {
            Operand::Copy(p) => format!("{{\"k\":\"copy\",\"p\":{}}}", self.place(body, p)),
            Operand::Move(p) => format!("{{\"k\":\"move\",\"p\":{}}}", self.place(body, p)),
            Operand::Constant(c) => format!("{{\"k\":\"const\",\"c\":{}}}", self.constant(&c.const_)),
            #[allow(unreachable_patterns)]
            other => format!("{{\"k\":\"other\",\"d\":{}}}", js(&format!("{:?}", other))),
        }
    }

    fn rvalue(&self, body: &Body<'tcx>, rv: &Rvalue<'tcx>) -> String {
        match rv {
            Rvalue::Use(o, ..) => format!("{{\"k\":\"use\",\"o\":{}}}", self.operand(body, o)),
            Rvalue::Ref(_, bk, p) => format!("{{\"k\":\"ref\",\"mut\":{},\"p\":{}}}", !matches!(bk, mir::BorrowKind::Shared | mir::BorrowKind::Fake(_)), self.place(body, p)),
            Rvalue::RawPtr(_, p) => format!("{{\"k\":\"rawptr\",\"p\":{}}}", self.place(body, p)),
            Rvalue::Cast(ck, o, ty) => format!("{{\"k\":\"cast\",\"ck\":{},\"o\":{},\"ty\":{}}}", js(&format!("{:?}", ck)), self.operand(body, o), js(&format!("{}", ty))),
            Rvalue::BinaryOp(op, ops) => format!("{{\"k\":\"binop\",\"op\":{},\"a\":{},\"b\":{}}}", js(&format!("{:?}", op)), self.operand(body, &ops.0), self.operand(body, &ops.1)),
            Rvalue::UnaryOp(op, o) => format!("{{\"k\":\"unop\",\"op\":{},\"o\":{}}}", js(&format!("{:?}", op)), self.operand(body, o)),
            Rvalue::Discriminant(p) => format!("{{\"k\":\"discr\",\"p\":{}}}", self.place(body, p)),
            Rvalue::Aggregate(kind, ops) => {
                let (kname, extra) = match &**kind {
                    AggregateKind::Tuple => ("tuple".to_string(), String::new()),
                    AggregateKind::Array(_) => ("array".to_string(), String::new()),
                    AggregateKind::Adt(did, variant, _, _, active) => {
                        let adt = self.tcx.adt_def(*did);
                        let v = adt.variant(*variant);
                        let active_s = match active { Some(fi) => js(v.fields[*fi].name.as_str()), None => "null".to_string() };
                        let fields: Vec<String> = v.fields.iter().map(|f| js(f.name.as_str())).collect();
                        ("adt".to_string(), format!(",\"adt\":{},\"active\":{},\"variant\":{},\"vi\":{},\"discr\":{},\"fields\":[{}]", js(&self.tcx.def_path_str(*did)), active_s, js(v.name.as_str()), variant.as_usize(), if adt.is_enum() { js(&format!("{}", adt.discriminant_for_variant(self.tcx, *variant).val)) } else { "null".to_string() }, fields.join(",")))
                    }
                    AggregateKind::Closure(did, _) => ("closure".to_string(), format!(",\"def\":{}", js(&self.tcx.def_path_str(*did)))),
                    other => ("other".to_string(), format!(",\"d\":{}", js(&format!("{:?}", other)))),
                };
                let ops: Vec<String> = ops.iter().map(|o| self.operand(body, o)).collect();
                format!("{{\"k\":\"agg\",\"ak\":{}{},\"ops\":[{}]}}", js(&kname), extra, ops.join(","))
            }
            other => format!("{{\"k\":\"other\",\"d\":{}}}", js(&format!("{:?}", other))),
        }
    }

    fn unwind(&self, u: &UnwindAction) -> String {
        match u {
            UnwindAction::Cleanup(bb) => format!("{}", bb.as_usize()),
            _ => "null".into(),
        }
    }

    fn unwind_kind(&self, u: &UnwindAction) -> &'static str {
        match u {
            UnwindAction::Cleanup(_) => "\"cleanup\"",
            UnwindAction::Continue => "\"continue\"",
            UnwindAction::Unreachable => "\"unreachable\"",
            UnwindAction::Terminate(_) => "\"terminate\"",
        }
    }

    fn bbopt(&self, b: &Option<BasicBlock>) -> String {
        b.map(|b| b.as_usize().to_string()).unwrap_or("null".into())
    }

    fn body(&self, did: DefId, body: &Body<'tcx>, promoted: Option<usize>) -> String {
        let tcx = self.tcx;
        let mut o = String::new();
        let _ = write!(o, "{{\"did\":{},\"path\":{},\"promoted\":{},\"kind\":{},\"span\":{},\"arg_count\":{}",
            did.index.as_u32(), js(&tcx.def_path_str(did)), promoted.map(|p| p as i64).unwrap_or(-1), js(&format!("{:?}", tcx.def_kind(did))), self.span(body.span), body.arg_count);
        // parent (for closures: the enclosing fn), generics
        let parent = tcx.opt_parent(did).map(|p| tcx.def_path_str(p));
        let _ = write!(o, ",\"parent\":{}", parent.map(|p| js(&p)).unwrap_or("null".into()));
        if matches!(tcx.def_kind(did), DefKind::Closure) {
            if let Some(ldid) = did.as_local() {
                let caps: Vec<String> = tcx.closure_captures(ldid).iter().map(|c| js(&c.to_string(tcx))).collect();
                let _ = write!(o, ",\"captures\":[{}]", caps.join(","));
            }
        }
        {
            let g = tcx.generics_of(did);
            let mut names: Vec<String> = Vec::new();
            let mut cur = Some(g);
            while let Some(gg) = cur {
                for p in gg.own_params.iter().rev() { names.push(js(p.name.as_str())); }
                cur = gg.parent.map(|p| tcx.generics_of(p));
            }
            names.reverse();
            let _ = write!(o, ",\"generics\":[{}]", names.join(","));
        }
        // locals
        o.push_str(",\"locals\":[");
        for (i, (_l, d)) in body.local_decls.iter_enumerated().enumerate() {
            if i > 0 { o.push(','); }
            let _ = write!(o, "{{\"ty\":{}}}", js(&format!("{}", d.ty)));
        }
        o.push(']');
        // debug names
        o.push_str(",\"debug\":[");
        let mut first = true;
        for vdi in &body.var_debug_info {
            if let mir::VarDebugInfoContents::Place(p) = &vdi.value {
                if !first { o.push(','); }
                first = false;
                let _ = write!(o, "{{\"name\":{},\"p\":{}}}", js(vdi.name.as_str()), self.place(body, p));
            }
        }
        o.push(']');
        // blocks
        o.push_str(",\"blocks\":[");
        for (bi, (_bb, data)) in body.basic_blocks.iter_enumerated().enumerate() {
            if bi > 0 { o.push(','); }
            let _ = write!(o, "{{\"cleanup\":{},\"stmts\":[", data.is_cleanup);
            let mut first = true;
            for st in &data.statements {
                let s = match &st.kind {
                    StatementKind::Assign(b) => {
                        let (p, rv) = &**b;
                        Some(format!("{{\"k\":\"assign\",\"p\":{},\"rv\":{},\"span\":{}}}", self.place(body, p), self.rvalue(body, rv), self.span(st.source_info.span)))
                    }
                    StatementKind::SetDiscriminant { place, variant_index } => Some(format!("{{\"k\":\"setdiscr\",\"p\":{},\"v\":{}}}", self.place(body, place), variant_index.as_usize())),
                    StatementKind::StorageLive(_) | StatementKind::StorageDead(_) | StatementKind::Nop => None,
                    StatementKind::FakeRead(..) | StatementKind::AscribeUserType(..) | StatementKind::Coverage(..) | StatementKind::ConstEvalCounter | StatementKind::PlaceMention(..) => None,
                    other => Some(format!("{{\"k\":\"other\",\"d\":{}}}", js(&format!("{:?}", other)))),
                };
                if let Some(s) = s {
                    if !first { o.push(','); }
                    first = false;
                    o.push_str(&s);
                }
            }
            o.push_str("],\"term\":");
            let term = data.terminator();
            let t = match &term.kind {
                TerminatorKind::Goto { target } => format!("{{\"k\":\"goto\",\"t\":{}}}", target.as_usize()),
                TerminatorKind::SwitchInt { discr, targets } => {
                    let arms: Vec<String> = targets.iter().map(|(v, t)| format!("[\"{}\",{}]", v, t.as_usize())).collect();
                    format!("{{\"k\":\"switch\",\"discr\":{},\"arms\":[{}],\"otherwise\":{}}}", self.operand(body, discr), arms.join(","), targets.otherwise().as_usize())
                }
                TerminatorKind::Return => "{\"k\":\"return\"}".to_string(),
                TerminatorKind::Unreachable => "{\"k\":\"unreachable\"}".to_string(),
                TerminatorKind::UnwindResume => "{\"k\":\"resume\"}".to_string(),
                TerminatorKind::UnwindTerminate(_) => "{\"k\":\"terminate\"}".to_string(),
                TerminatorKind::Drop { place, target, unwind, .. } => {
                    let pty = place.ty(body, tcx).ty;
                    format!("{{\"k\":\"drop\",\"p\":{},\"t\":{},\"unwind\":{},\"uk\":{},\"ty\":{}}}", self.place(body, place), target.as_usize(), self.unwind(unwind), self.unwind_kind(unwind), js(&format!("{}", pty)))
                }
                TerminatorKind::Assert { cond, expected, msg, target, unwind } => {
                    let kind = format!("{:?}", msg);
                    let kind = kind.split('(').next().unwrap_or("").split(' ').next().unwrap_or("").to_string();
                    format!("{{\"k\":\"assert\",\"cond\":{},\"expected\":{},\"kind\":{},\"msg\":{},\"t\":{},\"unwind\":{}}}", self.operand(body, cond), expected, js(&kind), js(&format!("{:?}", msg)), target.as_usize(), self.unwind(unwind))
                }
                TerminatorKind::Call { func, args, destination, target, unwind, .. } => {
                    let fty = func.ty(body, tcx);
                    let mut callee_crate = "null".to_string();
                    let (callee, resolved, gargs, selfty) = match fty.kind() {
                        ty::FnDef(cdid, gargs) => {
                            let env = TypingEnv::post_analysis(tcx, did);
                            let res = Instance::try_resolve(tcx, env, *cdid, gargs).ok().flatten();
                            let rs = res.map(|i| tcx.def_path_str(i.def_id()));
                            let ga: Vec<String> = gargs.iter().map(|a| js(&format!("{}", a))).collect();
                            // defining crate of the callee (resolved instance if known): core / alloc / std / <local>
                            let ck = tcx.crate_name(res.map(|i| i.def_id()).unwrap_or(*cdid).krate).to_string();
                            callee_crate = js(&ck);
                            (js(&tcx.def_path_str(*cdid)), rs.map(|r| js(&r)).unwrap_or("null".into()), format!("[{}]", ga.join(",")), "null".to_string())
                        }
                        _ => ("null".to_string(), "null".to_string(), "[]".to_string(), js(&format!("{}", fty))),
                    };
                    let a: Vec<String> = args.iter().map(|a| self.operand(body, &a.node)).collect();
                    format!("{{\"k\":\"call\",\"callee\":{},\"resolved\":{},\"ck\":{},\"gargs\":{},\"fnptr_ty\":{},\"func\":{},\"args\":[{}],\"dest\":{},\"t\":{},\"unwind\":{},\"uk\":{},\"span\":{}}}",
                        callee, resolved, callee_crate, gargs, selfty, self.operand(body, func), a.join(","), self.place(body, destination), self.bbopt(target), self.unwind(unwind), self.unwind_kind(unwind), self.span(term.source_info.span))
                }
                TerminatorKind::InlineAsm { targets, unwind, .. } => {
                    let ts: Vec<String> = targets.iter().map(|t| t.as_usize().to_string()).collect();
                    format!("{{\"k\":\"asm\",\"ts\":[{}],\"unwind\":{}}}", ts.join(","), self.unwind(unwind))
                }
                other => format!("{{\"k\":\"other\",\"d\":{}}}", js(&format!("{:?}", other))),
            };
            o.push_str(&t);
            let _ = write!(o, ",\"tspan\":{}", self.span(term.source_info.span));
            o.push('}');
        }
        o.push_str("]}");
        o
    }
}

fn ty_facts<'tcx>(tcx: TyCtxt<'tcx>, out: &mut Vec<String>) {
    // ADTs: field order, derived impls
    for id in tcx.hir_crate_items(()).definitions() {
        let did = id.to_def_id();
        match tcx.def_kind(did) {
            DefKind::Struct | DefKind::Enum | DefKind::Union => {
                let adt = tcx.adt_def(did);
                let vs: Vec<String> = adt.variants().iter().map(|v| {
                    let fs: Vec<String> = v.fields.iter().map(|f| format!("{{\"name\":{},\"ty\":{}}}", js(f.name.as_str()), js(&format!("{}", tcx.type_of(f.did).instantiate_identity().skip_norm_wip())))).collect();
                    format!("{{\"name\":{},\"fields\":[{}]}}", js(v.name.as_str()), fs.join(","))
                }).collect();
                let aty: Ty<'tcx> = tcx.type_of(did).instantiate_identity().skip_norm_wip();
                let nd = if aty.has_param() { "null".to_string() } else { aty.needs_drop(tcx, TypingEnv::fully_monomorphized()).to_string() };
                let kind = if adt.is_enum() { "enum" } else if adt.is_union() { "union" } else { "struct" };
                out.push(format!("{{\"fact\":\"adt\",\"path\":{},\"kind\":\"{}\",\"needs_drop\":{},\"variants\":[{}]}}", js(&tcx.def_path_str(did)), kind, nd, vs.join(",")));
            }
            DefKind::Static { .. } => {
                let ty: Ty<'tcx> = tcx.type_of(did).instantiate_identity().skip_norm_wip();
                let env = TypingEnv::fully_monomorphized();
                let nd = if ty.has_param() { "null".to_string() } else { ty.needs_drop(tcx, env).to_string() };
                out.push(format!("{{\"fact\":\"static\",\"path\":{},\"ty\":{},\"thread_local\":{},\"needs_drop\":{}}}", js(&tcx.def_path_str(did)), js(&format!("{}", ty)), tcx.is_thread_local_static(did), nd));
            }
            DefKind::Impl { .. } => {
                if let Some(tr) = tcx.impl_opt_trait_ref(did) {
                    let tr = tr.instantiate_identity().skip_norm_wip();
                    out.push(format!("{{\"fact\":\"impl\",\"trait\":{},\"self\":{},\"derived\":{},\"unsafe\":{}}}", js(&tcx.def_path_str(tr.def_id)), js(&format!("{}", tr.self_ty())), tcx.is_automatically_derived(did), tcx.impl_trait_header(did).safety.is_unsafe()));
                }
            }
            DefKind::Const { .. } | DefKind::AssocConst { .. } => {
                // evaluated value of non-generic constants, pretty-printed (tables of constants as data)
                let ty: Ty<'tcx> = tcx.type_of(did).instantiate_identity().skip_norm_wip();
                if !ty.has_param() && tcx.generics_of(did).count() == 0 {
                    if let Ok(val) = tcx.const_eval_poly(did) {
                        let c = Const::Val(val, ty);
                        out.push(format!("{{\"fact\":\"constval\",\"path\":{},\"ty\":{},\"value\":{}}}", js(&tcx.def_path_str(did)), js(&format!("{}", ty)), js(&format!("{}", c))));
                    }
                }
            }
            DefKind::Fn | DefKind::AssocFn => {
                let preds = tcx.predicates_of(did).instantiate_identity(tcx);
                let ps: Vec<String> = preds.predicates.iter().map(|p| js(&format!("{}", p.skip_norm_wip()))).collect();
                out.push(format!("{{\"fact\":\"fn\",\"path\":{},\"vis\":{},\"preds\":[{}]}}", js(&tcx.def_path_str(did)), js(&format!("{:?}", tcx.visibility(did))), ps.join(",")));
            }
            _ => {}
        }
    }
}

struct Cb;
impl rustc_driver::Callbacks for Cb {
    fn after_analysis<'tcx>(&mut self, _c: &rustc_interface::interface::Compiler, tcx: TyCtxt<'tcx>) -> Compilation {
        let krate = tcx.crate_name(rustc_span::def_id::LOCAL_CRATE).to_string();
        let want = std::env::var("MIRFACTS_CRATES").unwrap_or("divan".into());
        if !want.split(',').any(|w| w == krate) {
            return Compilation::Continue;
        }
        let cx = Cx { tcx };
        let mut bodies = Vec::new();
        for ldid in tcx.mir_keys(()) {
            let did = ldid.to_def_id();
            let kind = tcx.def_kind(did);
            match kind {
                DefKind::Fn | DefKind::AssocFn | DefKind::Closure => {
                    let body = tcx.optimized_mir(did);
                    bodies.push(cx.body(did, body, None));
                    for (pi, pb) in tcx.promoted_mir(did).iter_enumerated() {
                        bodies.push(cx.body(did, pb, Some(pi.as_usize())));
                    }
                }
                DefKind::Const { .. } | DefKind::AssocConst { .. } | DefKind::Static { .. } | DefKind::InlineConst | DefKind::AnonConst => {
                    // constant initialisers: CTFE MIR (tables such as `TreeColumn::ALL`)
                    let body = tcx.mir_for_ctfe(did);
                    bodies.push(cx.body(did, body, None));
                    for (pi, pb) in tcx.promoted_mir(did).iter_enumerated() {
                        bodies.push(cx.body(did, pb, Some(pi.as_usize())));
                    }
                }
                _ => {}
            }
        }
        let mut facts = Vec::new();
        ty_facts(tcx, &mut facts);
        let is_test = tcx.sess.opts.test;
        let cfgs: Vec<String> = {
            let mut v: Vec<String> = tcx.sess.config.iter().filter_map(|(k, val)| {
                let k = k.to_string();
                if k == "feature" || k == "test" || k == "debug_assertions" || k == "target_os" || k == "target_arch" || k == "miri" {
                    Some(js(&match val { Some(v) => format!("{}={}", k, v), None => k }))
                } else { None }
            }).collect();
            v.sort();
            v
        };
        let out = format!("{{\"crate\":{},\"test\":{},\"cfg\":[{}],\"bodies\":[\n{}\n],\"facts\":[\n{}\n]}}", js(&krate), is_test, cfgs.join(","), bodies.join(",\n"), facts.join(",\n"));
        let dir = std::env::var("MIRFACTS_OUT").expect("MIRFACTS_OUT not set");
        std::fs::create_dir_all(&dir).unwrap();
        // one write per process; pid in the name so parallel rustc processes never interleave
        let tmp = format!("{}/.{}.{}.tmp", dir, krate, std::process::id());
        std::fs::write(&tmp, out).unwrap();
        std::fs::rename(&tmp, format!("{}/{}.{}{}.json", dir, krate, if is_test { "test." } else { "" }, std::process::id())).unwrap();
        Compilation::Continue
    }
}

fn main() {
    let mut args: Vec<String> = std::env::args().collect();
    args.remove(1);
    rustc_driver::run_compiler(&args, &mut Cb);
}
