//! E3 `expand`: syn-based extraction for the attribute-macro properties (C12, C17 macro side).
//!
//!   expand items  <unexpanded.rs>   -> JSON list of items carrying #[divan::bench] / #[divan::bench_group]
//!   expand regs   <expanded.rs>     -> JSON list of registrations the macros emitted (entry statics, PUSH constructors,
//!                                      push bodies, EntryMeta / GenericBenchEntry literals, option structs)
//!
//! Nothing is executed; both commands parse source text into a syntax tree and print facts about it.
use proc_macro2::TokenStream;
use quote::ToTokens;
use std::fmt::Write as _;
use syn::visit::{self, Visit};

fn js(s: &str) -> String {
    let mut o = String::with_capacity(s.len() + 2);
    o.push('"');
    for c in s.chars() {
        match c {
            '"' => o.push_str("\\\""),
            '\\' => o.push_str("\\\\"),
            '\n' => o.push_str("\\n"),
            '\t' => o.push_str("\\t"),
            '\r' => o.push_str("\\r"),
            c if (c as u32) < 0x20 => {
                let _ = write!(o, "\\u{:04x}", c as u32);
            }
            c => o.push(c),
        }
    }
    o.push('"');
    o
}

fn toks<T: ToTokens>(t: &T) -> String {
    // token text with all whitespace removed: comparison key independent of pretty-printing
    t.to_token_stream().to_string().split_whitespace().collect::<Vec<_>>().join("")
}

fn jlist(v: &[String]) -> String {
    format!("[{}]", v.join(","))
}

fn jstrs(v: &[String]) -> String {
    jlist(&v.iter().map(|s| js(s)).collect::<Vec<_>>())
}

// ------------------------------------------------------------------------------------------------ items

struct Items {
    mods: Vec<String>,
    fns: Vec<String>,
    out: Vec<String>,
    cfg_depth: usize,
}

fn has_cfg(attrs: &[syn::Attribute]) -> bool {
    attrs.iter().any(|a| a.path().is_ident("cfg") || a.path().is_ident("cfg_attr"))
}

fn attr_kind(a: &syn::Attribute) -> Option<&'static str> {
    let segs: Vec<String> = a.path().segments.iter().map(|s| s.ident.to_string()).collect();
    if segs.len() >= 2 && (segs[0] == "divan" || segs[0] == "crate") {
        match segs[segs.len() - 1].as_str() {
            "bench" => return Some("bench"),
            "bench_group" => return Some("bench_group"),
            _ => {}
        }
    }
    None
}

/// Split the attribute's argument tokens at top-level commas into `key = value` options.
fn options(a: &syn::Attribute) -> Vec<(String, TokenStream)> {
    let mut out = Vec::new();
    let ts = match &a.meta {
        syn::Meta::List(l) => l.tokens.clone(),
        _ => return out,
    };
    let mut cur: Vec<proc_macro2::TokenTree> = Vec::new();
    let mut parts: Vec<Vec<proc_macro2::TokenTree>> = Vec::new();
    for t in ts {
        if let proc_macro2::TokenTree::Punct(p) = &t {
            if p.as_char() == ',' {
                parts.push(std::mem::take(&mut cur));
                continue;
            }
        }
        cur.push(t);
    }
    if !cur.is_empty() {
        parts.push(cur);
    }
    for p in parts {
        // key [= value]
        let mut key = String::new();
        let mut i = 0;
        while i < p.len() {
            if let proc_macro2::TokenTree::Punct(pp) = &p[i] {
                if pp.as_char() == '=' {
                    break;
                }
            }
            key.push_str(&p[i].to_string());
            i += 1;
        }
        let val: TokenStream = if i < p.len() { p[i + 1..].iter().cloned().collect() } else { TokenStream::new() };
        let key = key.trim_start_matches("r#").to_string();
        out.push((key, val));
    }
    out
}

fn array_elems(ts: &TokenStream) -> Option<Vec<String>> {
    // `[a, b, c]` -> element token strings (split at top-level commas inside the single bracket group)
    let v: Vec<proc_macro2::TokenTree> = ts.clone().into_iter().collect();
    if v.len() != 1 {
        return None;
    }
    if let proc_macro2::TokenTree::Group(g) = &v[0] {
        if g.delimiter() == proc_macro2::Delimiter::Bracket {
            let mut out = Vec::new();
            let mut cur = TokenStream::new();
            let mut depth_angle = 0i32;
            let mut any = false;
            for t in g.stream() {
                if let proc_macro2::TokenTree::Punct(p) = &t {
                    match p.as_char() {
                        '<' => depth_angle += 1,
                        '>' => depth_angle -= 1,
                        ',' if depth_angle <= 0 => {
                            out.push(toks(&cur));
                            cur = TokenStream::new();
                            any = false;
                            continue;
                        }
                        _ => {}
                    }
                }
                cur.extend(std::iter::once(t));
                any = true;
            }
            if any {
                out.push(toks(&cur));
            }
            return Some(out);
        }
    }
    None
}

impl Items {
    fn record(&mut self, kind: &str, ident: &syn::Ident, attrs: &[syn::Attribute], generics: Option<&syn::Generics>, sig: Option<&syn::Signature>) {
        for a in attrs {
            if let Some(k) = attr_kind(a) {
                if k != kind {
                    continue;
                }
                let pos = a.pound_token.span.start();
                let raw = ident.to_string();
                let opts = options(a);
                let mut oj = Vec::new();
                for (k2, v) in &opts {
                    let elems = array_elems(v);
                    oj.push(format!(
                        "{{\"key\":{},\"value\":{},\"elems\":{}}}",
                        js(k2),
                        js(&toks(v)),
                        match elems {
                            Some(e) => jstrs(&e),
                            None => "null".to_string(),
                        }
                    ));
                }
                let ignore_attr = attrs.iter().any(|x| x.path().is_ident("ignore"));
                let mut gens = Vec::new();
                if let Some(g) = generics {
                    for p in &g.params {
                        match p {
                            syn::GenericParam::Type(t) => gens.push(format!("{{\"kind\":\"type\",\"name\":{}}}", js(&t.ident.to_string()))),
                            syn::GenericParam::Const(c) => gens.push(format!("{{\"kind\":\"const\",\"name\":{}}}", js(&c.ident.to_string()))),
                            syn::GenericParam::Lifetime(_) => {}
                        }
                    }
                }
                let nargs = sig.map(|s| s.inputs.len()).unwrap_or(0);
                let cfg = self.cfg_depth > 0 || has_cfg(attrs);
                self.out.push(format!(
                    "{{\"kind\":{},\"ident\":{},\"mods\":{},\"fns\":{},\"line\":{},\"col\":{},\"options\":{},\"ignore_attr\":{},\"generics\":{},\"nargs\":{},\"cfg\":{}}}",
                    js(kind),
                    js(&raw),
                    jstrs(&self.mods),
                    jstrs(&self.fns),
                    pos.line,
                    pos.column + 1,
                    jlist(&oj),
                    ignore_attr,
                    jlist(&gens),
                    nargs,
                    cfg
                ));
            }
        }
    }
}

impl<'ast> Visit<'ast> for Items {
    fn visit_item_fn(&mut self, i: &'ast syn::ItemFn) {
        self.record("bench", &i.sig.ident, &i.attrs, Some(&i.sig.generics), Some(&i.sig));
        self.fns.push(i.sig.ident.to_string());
        let c = has_cfg(&i.attrs);
        if c { self.cfg_depth += 1; }
        visit::visit_item_fn(self, i);
        if c { self.cfg_depth -= 1; }
        self.fns.pop();
    }
    fn visit_item_mod(&mut self, i: &'ast syn::ItemMod) {
        self.record("bench_group", &i.ident, &i.attrs, None, None);
        self.mods.push(i.ident.to_string());
        let c = has_cfg(&i.attrs);
        if c { self.cfg_depth += 1; }
        visit::visit_item_mod(self, i);
        if c { self.cfg_depth -= 1; }
        self.mods.pop();
    }
}

// ------------------------------------------------------------------------------------------------ registrations

struct Regs {
    mods: Vec<String>,
    fns: Vec<String>,
    out: Vec<String>,
    push_statics_total: usize,
}

fn last_seg(p: &syn::Path) -> String {
    p.segments.last().map(|s| s.ident.to_string()).unwrap_or_default()
}


#[derive(Default)]
struct Inner {
    push_statics: Vec<String>,
    push_fns: Vec<String>,
    structs: Vec<String>,
    consts: Vec<String>,
    statics: Vec<String>,
    tail: String,
}

fn attr_strs(attrs: &[syn::Attribute]) -> Vec<String> {
    attrs.iter().map(|a| toks(&a.meta)).collect()
}

/// A load-time constructor slot: a static placed in a linker section (`#[link_section = ..]`) and/or kept with `#[used]`
/// whose type is a function pointer.  Identified by role, not by the name the macro happens to give it.
fn is_constructor_static(i: &syn::ItemStatic) -> bool {
    let attrs = attr_strs(&i.attrs);
    let placed = attrs.iter().any(|a| a.starts_with("link_section") || a == "used" || a.contains("link_section"));
    placed && matches!(&*i.ty, syn::Type::BareFn(_))
}

impl<'ast> Visit<'ast> for Inner {
    fn visit_item_static(&mut self, i: &'ast syn::ItemStatic) {
        let name = i.ident.to_string();
        if is_constructor_static(i) {
            self.push_statics.push(format!(
                "{{\"name\":{},\"attrs\":{},\"ty\":{},\"init\":{}}}",
                js(&name),
                jstrs(&attr_strs(&i.attrs)),
                js(&toks(&i.ty)),
                js(&toks(&i.expr))
            ));
        } else {
            self.statics.push(format!("{{\"name\":{},\"ty\":{},\"init\":{}}}", js(&name), js(&toks(&i.ty)), js(&{
                let s = toks(&i.expr);
                if s.len() > 400 { s[..400].to_string() } else { s }
            })));
        }
        visit::visit_item_static(self, i);
    }
    fn visit_item_const(&mut self, i: &'ast syn::ItemConst) {
        self.consts.push(format!("{{\"name\":{},\"ty\":{},\"init\":{}}}", js(&i.ident.to_string()), js(&toks(&i.ty)), js(&toks(&i.expr))));
        visit::visit_item_const(self, i);
    }
    fn visit_item_fn(&mut self, i: &'ast syn::ItemFn) {
        // every function nested in the registration is summarised; the rule picks the one the constructor slot names
        {
            let mut node_statics = Vec::new();
            let mut calls = Vec::new();
            let mut other = 0usize;
            for st in &i.block.stmts {
                match st {
                    syn::Stmt::Item(syn::Item::Static(s)) => {
                        node_statics.push(format!("{{\"name\":{},\"ty\":{},\"init\":{}}}", js(&s.ident.to_string()), js(&toks(&s.ty)), js(&toks(&s.expr))));
                    }
                    syn::Stmt::Expr(syn::Expr::MethodCall(m), _) => {
                        calls.push(format!(
                            "{{\"recv\":{},\"method\":{},\"args\":{}}}",
                            js(&toks(&m.receiver)),
                            js(&m.method.to_string()),
                            jstrs(&m.args.iter().map(|a| toks(a)).collect::<Vec<_>>())
                        ));
                    }
                    _ => other += 1,
                }
            }
            self.push_fns.push(format!(
                "{{\"name\":{},\"abi\":{},\"node_statics\":{},\"calls\":{},\"other_stmts\":{}}}",
                js(&i.sig.ident.to_string()),
                js(&i.sig.abi.as_ref().map(|a| toks(a)).unwrap_or_default()),
                jlist(&node_statics),
                jlist(&calls),
                other
            ));
        }
        visit::visit_item_fn(self, i);
    }
    fn visit_expr_struct(&mut self, e: &'ast syn::ExprStruct) {
        let name = last_seg(&e.path);
        if ["BenchEntry", "GroupEntry", "EntryMeta", "EntryLocation", "GenericBenchEntry", "BenchOptions"].contains(&name.as_str()) {
            let mut fields = Vec::new();
            for f in &e.fields {
                let k = match &f.member {
                    syn::Member::Named(i) => i.to_string(),
                    syn::Member::Unnamed(i) => i.index.to_string(),
                };
                let mut v = toks(&f.expr);
                if v.len() > 1500 {
                    v.truncate(1500);
                }
                fields.push(format!("{}:{}", js(&k), js(&v)));
            }
            self.structs.push(format!("{{\"struct\":{},\"rest\":{},\"fields\":{{{}}}}}", js(&name), e.rest.is_some(), fields.join(",")));
        }
        visit::visit_expr_struct(self, e);
    }
}

impl Regs {
    fn registration(&mut self, i: &syn::ItemStatic) {
        let mut inner = Inner::default();
        inner.visit_expr(&i.expr);
        if let syn::Expr::Block(b) = &*i.expr {
            if let Some(syn::Stmt::Expr(e, None)) = b.block.stmts.last() {
                let mut s = toks(e);
                if s.len() > 200 {
                    s.truncate(200);
                }
                inner.tail = s;
            }
        }
        self.push_statics_total += inner.push_statics.len();
        let pos = i.ident.span().start();
        self.out.push(format!(
            "{{\"static\":{},\"ty\":{},\"mods\":{},\"fns\":{},\"line\":{},\"push_statics\":{},\"push_fns\":{},\"structs\":{},\"consts\":{},\"statics\":{},\"tail\":{}}}",
            js(&i.ident.to_string()),
            js(&toks(&i.ty)),
            jstrs(&self.mods),
            jstrs(&self.fns),
            pos.line,
            jlist(&inner.push_statics),
            jlist(&inner.push_fns),
            jlist(&inner.structs),
            jlist(&inner.consts),
            jlist(&inner.statics),
            js(&inner.tail)
        ));
    }
}

impl<'ast> Visit<'ast> for Regs {
    fn visit_item_static(&mut self, i: &'ast syn::ItemStatic) {
        let t = toks(&i.ty);
        let is_entry = t.ends_with("__private::BenchEntry") || t.ends_with("__private::GroupEntry") || t.contains("__private::EntryList<");
        if is_entry {
            self.registration(i);
            return; // do not descend: nested statics belong to this registration
        }
        if is_constructor_static(i) {
            // a constructor outside any recognised registration
            self.push_statics_total += 1;
            self.out.push(format!("{{\"static\":\"<constructor>\",\"orphan\":true,\"mods\":{},\"fns\":{},\"line\":{}}}", jstrs(&self.mods), jstrs(&self.fns), i.ident.span().start().line));
        }
        visit::visit_item_static(self, i);
    }
    fn visit_item_fn(&mut self, i: &'ast syn::ItemFn) {
        self.fns.push(i.sig.ident.to_string());
        visit::visit_item_fn(self, i);
        self.fns.pop();
    }
    fn visit_item_mod(&mut self, i: &'ast syn::ItemMod) {
        self.mods.push(i.ident.to_string());
        visit::visit_item_mod(self, i);
        self.mods.pop();
    }
}

/// `benchcalls`: every `<recv>.bench(<arg>)` method call in the expansion (the call the generated runner makes on the
/// `Bencher` it is given): is the argument the benchmarked function itself / a closure whose value is a call expression,
/// or a closure that discards the call's value (block without tail expression)?
struct BenchCalls {
    out: Vec<String>,
}

fn closure_value_kind(e: &syn::Expr) -> &'static str {
    match e {
        syn::Expr::Call(_) | syn::Expr::MethodCall(_) | syn::Expr::Path(_) => "value",
        syn::Expr::Paren(p) => closure_value_kind(&p.expr),
        syn::Expr::Group(g) => closure_value_kind(&g.expr),
        syn::Expr::Block(b) => match b.block.stmts.last() {
            Some(syn::Stmt::Expr(x, None)) => closure_value_kind(x),
            Some(syn::Stmt::Expr(_, Some(_))) => "discarded",
            Some(_) => "discarded",
            None => "unit",
        },
        _ => "other",
    }
}

impl<'ast> Visit<'ast> for BenchCalls {
    fn visit_expr_method_call(&mut self, m: &'ast syn::ExprMethodCall) {
        if m.method == "bench" && m.args.len() == 1 {
            let a = &m.args[0];
            let (kind, value) = match a {
                syn::Expr::Path(_) => ("path", "value"),
                syn::Expr::Closure(c) => ("closure", closure_value_kind(&c.body)),
                _ => ("other", "other"),
            };
            let recv = toks(&*m.receiver);
            self.out.push(format!("{{\"recv\":{},\"kind\":{},\"value\":{},\"arg\":{}}}", js(&recv), js(kind), js(value), js(&toks(a))));
        }
        visit::visit_expr_method_call(self, m);
    }
}

fn main() {
    let args: Vec<String> = std::env::args().collect();
    if args.len() != 3 {
        eprintln!("usage: expand items|regs <file.rs>");
        std::process::exit(2);
    }
    let src = std::fs::read_to_string(&args[2]).expect("read source");
    let file = match syn::parse_file(&src) {
        Ok(f) => f,
        Err(e) => {
            eprintln!("parse error in {}: {}", args[2], e);
            std::process::exit(2);
        }
    };
    match args[1].as_str() {
        "items" => {
            let mut v = Items { mods: vec![], fns: vec![], out: vec![], cfg_depth: 0 };
            v.visit_file(&file);
            println!("{{\"items\":[\n{}\n]}}", v.out.join(",\n"));
        }
        "regs" => {
            let mut v = Regs { mods: vec![], fns: vec![], out: vec![], push_statics_total: 0 };
            v.visit_file(&file);
            println!("{{\"push_statics_total\":{},\"regs\":[\n{}\n]}}", v.push_statics_total, v.out.join(",\n"));
        }
        "benchcalls" => {
            let mut v = BenchCalls { out: vec![] };
            v.visit_file(&file);
            println!("{{\"calls\":[\n{}\n]}}", v.out.join(",\n"));
        }
        _ => std::process::exit(2),
    }
}
