#!/bin/sh
# Build the framework offline from files on disk: the mirfacts driver (nightly, rustc_private, zero deps).
set -e
cd "$(dirname "$0")"
export CARGO_NET_OFFLINE=true
(cd driver && cargo build --release --offline)
# warm the dependency metadata of the analysed configuration so the first check is fast (optional)
python3 lib/extract.py K1 >/dev/null
echo "setup ok"
