#!/bin/sh
# Build the framework offline from files on disk:
#  - driver/  : the mirfacts rustc_private driver (nightly, zero dependencies)
#  - expand/  : the syn-based macro-expansion analyser (syn/quote/proc-macro2 from the local cargo cache)
# and warm the dependency metadata of the quick configuration so that the first check is fast (optional).
set -e
cd "$(dirname "$0")"
export CARGO_NET_OFFLINE=true
(cd driver && cargo build --release --offline)
(cd expand && cargo build --release --offline)
python3 lib/extract.py K1 >/dev/null
echo "setup ok"
