"""Flow-sensitive path summaries of small loop-free bodies (forward dataflow with path splitting; no solver).

For every normal path entry -> return of a body, `PathEval(body).run()` gives a `Summary`:

  conds : the decisions taken, as canonical atoms with a polarity (lib.symexpr.canon_cmp), ("discr", e) == v, or
          ("bool", e) == v   - so `a >= b`, `!(a < b)`, `b <= a` are one and the same condition;
  mem   : the final value of every memory cell written through a parameter pointer, keyed (param index, field path),
          as a canonical value expression over the *initial* values ("arg", i, fields), parameters and call results
          (reads after writes are forwarded, so `x += 1; m = max(m, x)` yields m' = max(m0, x0 + 1));
  ret   : the returned value;
  calls : the impure calls performed, in order, with their argument values.

This is what lets a rule state *what a function computes* ("max' = max(max, cur + size) on every path") instead of how
the source spells it (Ord::max vs. `if cur > max { max = cur }`, Option::or vs. match, `>=` vs. swapped `<=`).
Bodies with loops, or with more than `max_paths` paths, are not summarised (run() returns None) - callers fail closed.
"""
from .facts import norm, const_int
from .symexpr import Sym, PURE, add, mul, canon_cmp, ARITH_FLAT, COMMUTATIVE, _signed_cmp


class Summary:
    def __init__(self, conds, mem, ret, calls, blocks):
        self.conds = conds
        self.mem = mem
        self.ret = ret
        self.calls = calls
        self.blocks = blocks

    def cond(self, atom):
        """Polarity of `atom` on this path, or None when the path does not decide it."""
        for a, p in self.conds:
            if a == atom:
                return p
        return None


class _State:
    __slots__ = ("env", "mem", "conds", "calls", "blocks")

    def __init__(self, env=None, mem=None, conds=None, calls=None, blocks=None):
        self.env = env or {}
        self.mem = mem or {}
        self.conds = conds or []
        self.calls = calls or []
        self.blocks = blocks or []

    def fork(self):
        return _State(dict(self.env), dict(self.mem), list(self.conds), list(self.calls), list(self.blocks))


# core's pointer conversions that return their argument (the method spelling of an `as` cast between pointer types)
PTR_IDENTITY = {"std::ptr::from_ref", "std::ptr::from_mut", "std::ptr::const_ptr::cast", "std::ptr::mut_ptr::cast",
                "std::ptr::const_ptr::cast_mut", "std::ptr::mut_ptr::cast_const", "std::ptr::const_ptr::cast_const", "std::ptr::mut_ptr::cast_mut"}


class PathEval:
    def __init__(self, body, pure=PURE, keep_casts=False, max_paths=512, effects=None):
        self.b = body
        self.pure = set(pure)
        self.keep_casts = keep_casts
        self.max_paths = max_paths
        # effects: callee -> tuple of field-path prefixes (of pointer arguments) the call may write; None = unknown callee
        self.effects = effects or {}
        self.out = []

    # ---- expression evaluation in a state
    def op(self, st, o):
        k = o["k"]
        if k == "const":
            v = const_int(o)
            if v is not None:
                ty = o["c"].get("ty", "")
                size = o["c"].get("size", 0)
                if ty.startswith("i") and size and v >= 1 << (size * 8 - 1):
                    v -= 1 << (size * 8)
                return ("int", v)
            c = o["c"]
            for key in ("fn", "static", "fnptr", "uneval"):
                if c.get(key):
                    return ("opaque", "%s:%s" % (key, norm(c[key]) if isinstance(c[key], str) else c[key]))
            return ("opaque", "const:%s" % c.get("d"))
        if k in ("copy", "move"):
            return self.read(st, o["p"])
        return ("opaque", "op:%s" % k)

    def local(self, st, l):
        if l in st.env:
            return st.env[l]
        if 1 <= l <= self.b.arg_count:
            if self.b.kind == "Closure" and l == 1:
                return ("upvar", 0, ())
            return ("arg", l, ())
        return ("undef", l)

    def _load(self, st, key):
        """Current content of memory cell `key` = (param, fields): last write, or a projection of a write to a prefix."""
        i, fs = key
        for n in range(len(fs), -1, -1):
            pre = (i, fs[:n])
            if pre in st.mem:
                v = st.mem[pre]
                for f in fs[n:]:
                    v = self._field(v, f)
                return v
        if isinstance(i, tuple):
            return ("cell", i, fs)          # initial content of the cell a returned pointer designates
        return ("arg", i, fs)

    def read(self, st, p):
        cur = self.local(st, p["l"])
        downcast = None
        for pr in p["proj"]:
            k = pr["k"]
            if k == "deref":
                if cur[0] in ("ptr", "sptr"):
                    cur = ("mem", cur[1][0], cur[1][1])     # settle after the fields: the most specific cell written wins
                elif cur[0] == "arg" and not cur[2] and self._is_ptr_param(cur[1]):
                    cur = ("mem", cur[1], ())
                elif cur[0] == "site":
                    cur = ("mem", ("ret", cur[1], cur[2]), ())      # the cell a returned pointer designates
                # references to locals / by-value data: transparent
                continue
            if k == "downcast":
                downcast = pr.get("name") or pr.get("v")
                continue
            if k == "field":
                f = pr["name"] if pr.get("name") is not None else pr["i"]
                if isinstance(f, str) and f.isdigit():
                    f = int(f)
                if cur[0] == "mem":
                    cur = ("mem", cur[1], cur[2] + (f,))
                    continue
                if downcast is not None:
                    cur = ("payload", downcast, f, self._settle(st, cur))
                    downcast = None
                else:
                    cur = self._field(self._settle(st, cur), f)
                continue
            cur = ("opaque", "proj:%s" % k)
        return self._settle(st, cur)

    def _settle(self, st, e):
        if e[0] == "mem":
            return self._load(st, (e[1], e[2]))
        return e

    def _is_mut_ptr_param(self, i):
        ty = self.b.local_ty(i)
        return ty.startswith("&mut") or ty.startswith("*mut")

    def _is_ptr_param(self, i):
        ty = self.b.local_ty(i)
        return ty.startswith("&") or ty.startswith("*")

    @staticmethod
    def _field(e, f):
        if e[0] in ("arg", "upvar"):
            return (e[0], e[1], e[2] + (f,))
        if e[0] == "field":
            return ("field", e[1], e[2] + (f,))
        if e[0] == "tuple" and isinstance(f, int) and f < len(e[1]):
            return e[1][f]
        if e[0] == "ovf":
            return e[1] if f == 0 else ("opaque", "overflow-flag")
        if e[0] == "adt" and len(e) > 4 and f in e[4]:
            return e[3][e[4].index(f)]
        return ("field", e, (f,))

    def _addr(self, st, p):
        """Address of place p as a memory key, or None for places that live in locals."""
        cur = self.local(st, p["l"])
        key = None
        for pr in p["proj"]:
            k = pr["k"]
            if k == "deref":
                if cur is not None and cur[0] in ("ptr", "sptr"):
                    key = cur[1]
                    cur = None
                elif cur is not None and cur[0] == "arg" and not cur[2] and self._is_ptr_param(cur[1]):
                    key = (cur[1], ())
                    cur = None
                elif cur is not None and cur[0] == "site":
                    key = (("ret", cur[1], cur[2]), ())
                    cur = None
                elif key is not None:
                    # pointer stored in memory: give up precision
                    return ("unknown",)
                continue
            if k == "field":
                f = pr["name"] if pr.get("name") is not None else pr["i"]
                if isinstance(f, str) and f.isdigit():
                    f = int(f)
                if key is not None:
                    key = (key[0], key[1] + (f,))
                else:
                    cur = None if cur is None else self._field(cur, f)
                continue
            if k == "downcast":
                continue
            return ("unknown",)
        return key

    def rv(self, st, rv, bb):
        k = rv["k"]
        if k == "use":
            return self.op(st, rv["o"])
        if k in ("ref", "rawptr"):
            key = self._addr(st, rv["p"])
            if key is not None and key != ("unknown",):
                # shared references cannot be written through (no interior mutability in the cells summarised here)
                return ("ptr", key) if (k == "rawptr" or rv.get("mut")) else ("sptr", key)
            return self.read(st, rv["p"])       # reference to local data: transparent (value semantics)
        if k == "cast":
            e = self.op(st, rv["o"])
            ck = rv.get("ck", "")
            if "IntToInt" in ck:
                return ("cast", rv.get("ty", ""), e) if self.keep_casts else e
            if ck.startswith("PointerCoercion") or ck in ("PtrToPtr", "Transmute"):
                return e
            return ("cast", rv.get("ty", ""), e)
        if k == "binop":
            a = self.op(st, rv["a"])
            c = self.op(st, rv["b"])
            op = rv["op"]
            flat = ARITH_FLAT.get(op)
            if flat == "Add":
                r = add(a, c)
            elif flat == "Sub":
                r = add(a, c, -1)
            elif flat == "Mul":
                r = mul(a, c)
            elif op in ("Eq", "Ne", "Lt", "Le", "Gt", "Ge"):
                if op in ("Gt", "Ge"):
                    op = {"Gt": "Lt", "Ge": "Le"}[op]
                    a, c = c, a
                elif op in COMMUTATIVE and repr(c) < repr(a):
                    a, c = c, a
                r = ("cmp", op, a, c, "signed") if _signed_cmp(rv) else ("cmp", op, a, c)
            else:
                if op in COMMUTATIVE and repr(c) < repr(a):
                    a, c = c, a
                r = (op.lower(), a, c)
            return ("ovf", r) if op.endswith("WithOverflow") else r
        if k == "unop":
            return ("un", rv["op"], self.op(st, rv["o"]))
        if k == "agg":
            if rv["ak"] in ("tuple", "closure"):     # a closure value is the tuple of its captures
                return ("tuple", tuple(self.op(st, o) for o in rv["ops"]))
            if rv["ak"] == "adt":
                return ("adt", norm(rv["adt"]), rv.get("variant"), tuple(self.op(st, o) for o in rv["ops"]), tuple(rv.get("fields") or ()))
            return ("opaque", "agg:%s" % rv["ak"])
        if k == "discr":
            return ("discr", self.read(st, rv["p"]))
        if k == "len":
            return ("call", "len", (self.read(st, rv["p"]),))
        return ("opaque", "%s:%s" % (k, rv.get("d", "")))

    def assign(self, st, p, val):
        if not p["proj"]:
            st.env[p["l"]] = val
            return
        key = self._addr(st, p)
        if key == ("unknown",):
            st.mem[("?", ())] = ("opaque", "write-through-unknown-pointer")
            return
        if key is not None:
            # a write to a cell supersedes earlier writes to its sub-cells
            for k2 in [k2 for k2 in st.mem if k2[0] == key[0] and k2[1][:len(key[1])] == key[1] and k2 != key]:
                del st.mem[k2]
            st.mem[key] = val
            return
        # field of a local aggregate
        l = p["l"]
        fs = []
        for pr in p["proj"]:
            if pr["k"] == "field":
                f = pr["name"] if pr.get("name") is not None else pr["i"]
                fs.append(int(f) if isinstance(f, str) and f.isdigit() else f)
        old = st.env.get(l, ("undef", l))
        if old[0] == "tuple" and len(fs) == 1 and isinstance(fs[0], int) and fs[0] < len(old[1]):
            el = list(old[1])
            el[fs[0]] = val
            st.env[l] = ("tuple", tuple(el))
        else:
            st.env[l] = ("upd", old, tuple(fs), val)

    _STD_VARIANTS = {"std::option::Option": ("None", "Some"), "std::result::Result": ("Ok", "Err"),
                     "std::ops::ControlFlow": ("Continue", "Break"), "std::cmp::Ordering": None}

    def _variant_index(self, adt_expr):
        """Discriminant of an ("adt", path, variant, ..) expression when it is known (std Option/Result/ControlFlow; local enums may
        carry explicit discriminants the expression does not record, so they are left undecided)."""
        path, var = adt_expr[1], adt_expr[2]
        names = self._STD_VARIANTS.get(path)
        if names:
            return names.index(var) if var in names else None
        return None

    # ---- walking
    def run(self, start=0, stop_at=()):
        """Summaries of all paths from `start` to a return - or, with `stop_at`, to the first of those blocks (the summary
        then describes the state on arrival there; `Summary.blocks[-1]` is the stop block)."""
        self.out = []
        self._stop = set(stop_at)
        try:
            self._walk(start, _State())
        except _TooManyPaths:
            return None
        except _Loop:
            return None
        return self.out

    def _walk(self, bb, st):
        b = self.b
        while True:
            if bb in st.blocks:
                raise _Loop()
            st.blocks.append(bb)
            if bb in getattr(self, "_stop", ()) and len(st.blocks) > 1:
                if len(self.out) >= self.max_paths:
                    raise _TooManyPaths()
                s_ = Summary(st.conds, st.mem, st.env.get(0, ("undef", 0)), st.calls, st.blocks)
                s_.env = st.env
                self.out.append(s_)
                return
            bl = b.blocks[bb]
            for s in bl["stmts"]:
                if s["k"] == "assign":
                    self.assign(st, s["p"], self.rv(st, s["rv"], bb))
            t = bl["term"]
            k = t["k"]
            if k == "goto":
                bb = t["t"]
                continue
            if k in ("drop", "assert"):
                bb = t["t"]
                continue
            if k == "return":
                if len(self.out) >= self.max_paths:
                    raise _TooManyPaths()
                self.out.append(Summary(st.conds, st.mem, st.env.get(0, ("undef", 0)), st.calls, st.blocks))
                return
            if k == "call":
                c = b.call_at(bb)
                args = tuple(self.op(st, a) for a in t["args"])
                callee = c.callee if c is not None else "?"
                if callee in PTR_IDENTITY and len(args) == 1:
                    # a pointer conversion spelled as a call (ptr::from_ref(x).cast::<T>() for x as *const _ as *const T)
                    val = args[0]
                elif callee in self.pure:
                    val = ("call", callee, args)
                else:
                    val = ("site", callee, bb, args)
                    st.calls.append((callee, args, bb))
                    eff = self.effects.get(callee)
                    for a in args:
                        key = a[1] if a[0] == "ptr" else ((a[1], ()) if a[0] == "arg" and not a[2] and self._is_mut_ptr_param(a[1]) else None)
                        if key is None:
                            continue
                        if eff is None:
                            prefixes = [key[1]]
                        else:
                            prefixes = [key[1] + tuple(x) for x in eff]
                        for pre in prefixes:
                            for k2 in [k2 for k2 in st.mem if k2[0] == key[0] and k2[1][:len(pre)] == pre]:
                                del st.mem[k2]
                            st.mem[(key[0], pre)] = ("after", callee, bb, (key[0], pre))
                self.assign(st, t["dest"], val)
                if t["t"] is None:
                    return
                bb = t["t"]
                continue
            if k == "switch":
                e = self.op(st, t["discr"])
                arms = [(int(a[0]), a[1]) for a in t["arms"]]
                if e[0] == "int":
                    tgt = dict(arms).get(e[1], t["otherwise"])
                    bb = tgt
                    continue
                neg = False
                while e[0] == "un" and e[1] == "Not":
                    e = e[2]
                    neg = not neg
                atom, pol = canon_cmp(e)
                branches = []
                if atom is not None and set(v for v, _ in arms) <= {0, 1}:
                    d = dict(arms)
                    f_t = d.get(0, t["otherwise"])
                    t_t = d.get(1, t["otherwise"])
                    if neg:
                        f_t, t_t = t_t, f_t
                    branches = [((atom, pol), t_t), ((atom, not pol), f_t)]
                elif e[0] == "discr" and e[1][0] == "adt" and self._variant_index(e[1]) is not None:
                    # the discriminant of a value built on this very path: one feasible arm
                    bb = dict(arms).get(self._variant_index(e[1]), t["otherwise"])
                    continue
                elif e[0] == "discr":
                    for v, tg in arms:
                        branches.append(((("discr", e[1], v), True), tg))
                    branches.append(((("discr", e[1], "other:" + ",".join(str(v) for v, _ in arms)), True), t["otherwise"]))
                else:
                    vals = [v for v, _ in arms]
                    if set(vals) <= {0, 1}:
                        d = dict(arms)
                        f_t = d.get(0, t["otherwise"])
                        t_t = d.get(1, t["otherwise"])
                        if neg:
                            f_t, t_t = t_t, f_t
                        branches = [((("bool", e), True), t_t), ((("bool", e), False), f_t)]
                    else:
                        for v, tg in arms:
                            branches.append(((("val", e, v), True), tg))
                        branches.append(((("val", e, "other"), True), t["otherwise"]))
                # correlated decisions: a condition already decided on this path keeps its answer
                live = []
                for (a, p), tg in branches:
                    prev = [pp for aa, pp in st.conds if aa == a]
                    if prev and prev[0] != p:
                        continue
                    if a[0] == "discr":
                        same = [aa for aa, pp in st.conds if aa[0] == "discr" and aa[1] == a[1]]
                        if same and a not in same:
                            continue
                    live.append(((a, p), tg))
                # unreachable `otherwise` blocks of exhaustive matches
                live = [x for x in live if b.blocks[x[1]]["term"]["k"] != "unreachable" or b.blocks[x[1]]["stmts"]]
                for (a, p), tg in live[:-1]:
                    s2 = st.fork()
                    if (a, p) not in s2.conds:
                        s2.conds.append((a, p))
                    self._walk(tg, s2)
                if not live:
                    return
                (a, p), tg = live[-1]
                if (a, p) not in st.conds:
                    st.conds.append((a, p))
                bb = tg
                continue
            # unreachable / resume / terminate / asm: the path does not return
            return


class _TooManyPaths(Exception):
    pass


class _Loop(Exception):
    pass
