"""E2 core: typed view over the mirfacts JSON (bodies, CFG, dominance, loops, provenance).

Nothing here executes divan code; every function is a graph or dataflow query over MIR.
"""
import glob
import json
import os
import re
from collections import defaultdict

# --------------------------------------------------------------------------- paths


def norm(path):
    """Normalise a def path: drop generic argument lists (`::<..>` and lifetime-only `<'a>`)."""
    if path is None:
        return None
    out = []
    i = 0
    n = len(path)
    while i < n:
        if path.startswith("::<", i):
            # skip balanced <...>
            depth = 0
            j = i + 2
            while j < n:
                if path[j] == "<":
                    depth += 1
                elif path[j] == ">" and path[j - 1] != "-":
                    depth -= 1
                    if depth == 0:
                        break
                j += 1
            i = j + 1
            continue
        out.append(path[i])
        i += 1
    s = "".join(out)
    # `Type<'a>` / `Type<'_>` lifetime-only argument lists (appear in impl headers and parents)
    s = re.sub(r"<('[A-Za-z_]+(, )?)+>", "", s)
    return s


def short(path):
    """Last two path segments of a normalised path (for reporting)."""
    if path is None:
        return None
    parts = norm(path).split("::")
    return "::".join(parts[-2:])


# --------------------------------------------------------------------------- model


class Call:
    __slots__ = ("body", "bb", "decl", "resolved", "gargs", "args", "dest", "target", "unwind", "span",
                 "fnptr_ty", "func", "_tname", "ck")

    def __init__(self, body, bb, t):
        self.body = body
        self.bb = bb
        self.decl = t["callee"]
        self.resolved = t["resolved"]
        self.gargs = t["gargs"]
        self.args = t["args"]
        self.dest = t["dest"]
        self.target = t["t"]
        self.unwind = t["unwind"]
        self.span = t["span"]
        self.fnptr_ty = t["fnptr_ty"]
        self.func = t["func"]
        self.ck = t.get("ck")       # defining crate of the callee: core / alloc / std / <workspace crate>
        self._tname = None

    @property
    def callee(self):
        """Best static name of the callee: resolved instance if known, declared item otherwise."""
        return norm(self.resolved or self.decl or "<indirect>")

    @property
    def is_fn_trait_call(self):
        d = self.decl or ""
        return d.startswith("std::ops::Fn") and d.rsplit("::", 1)[-1] in ("call", "call_mut", "call_once")

    @property
    def name(self):
        """Semantic name: `upvar:x` / `param:x` / `local:x` for calls through Fn* on a variable,
        the closure's def path if it resolves to a local closure, else the callee path."""
        if self._tname is not None:
            return self._tname
        nm = self.callee
        if self.is_fn_trait_call or self.decl is None:
            recv = self.args[0] if (self.is_fn_trait_call and self.args) else self.func
            res = norm(self.resolved) if self.resolved else None
            if res and "{closure#" in res:
                nm = res
            else:
                srcs = self.body.prov.op_src(recv)
                names = sorted({s.label() for s in srcs if s.kind in ("upvar", "param")})
                if names:
                    nm = "|".join(names)
                    # a captured callable of a generic type that is, in the body building this closure, a closure built
                    # there (a helper taking `impl Fn` spliced into its caller): the call is a call of that closure
                    ups = {s.a for s in srcs if s.kind == "upvar" and not s.b}
                    if len(names) == 1 and len(ups) == 1 and self.body.captures:
                        prog = self.body.prog
                        for cn in self.body.captures:
                            if cn.lstrip("*") != list(ups)[0].lstrip("*"):
                                continue
                            cap = prog.capture_operand(self.body, cn)
                            if cap:
                                defs = {norm(o[1]["def"]) for o in origins(cap[0], cap[1]) if o[0] == "rvalue" and o[1]["k"] == "agg" and o[1].get("ak") == "closure"}
                                others = [o for o in origins(cap[0], cap[1]) if not (o[0] == "rvalue" and o[1]["k"] == "agg" and o[1].get("ak") == "closure")]
                                if len(defs) == 1 and not others:
                                    nm = list(defs)[0]
                else:
                    loc = sorted({s.label() for s in srcs if s.kind in ("call",)})
                    nm = "fn-value:" + ("|".join(loc) if loc else "?")
        self._tname = nm
        return nm

    def line(self):
        return "%s:%s" % (self.span["file"], self.span["line"])

    def __repr__(self):
        return "<call %s @bb%d %s>" % (self.name, self.bb, self.line())


class Src:
    """A provenance source."""
    __slots__ = ("kind", "a", "b", "c")

    def __init__(self, kind, a=None, b=None, c=None):
        self.kind = kind
        self.a = a
        self.b = b
        self.c = c

    def key(self):
        return (self.kind, self.a, self.b, self.c)

    def __hash__(self):
        return hash(self.key())

    def __eq__(self, o):
        return self.key() == o.key()

    def label(self):
        if self.kind == "param":
            return "param:%s%s" % (self.a, "".join("." + str(f) for f in (self.b or ())))
        if self.kind == "upvar":
            return "upvar:%s%s" % (self.a, "".join("." + str(f) for f in (self.b or ())))
        if self.kind == "const":
            return "const:%s" % (self.a,)
        if self.kind == "call":
            return "call:%s" % (self.a,)
        if self.kind == "binop":
            return "binop:%s" % (self.a,)
        if self.kind == "static":
            return "static:%s" % (self.a,)
        return "%s:%s" % (self.kind, self.a)

    def __repr__(self):
        return self.label()


def place_fields(place):
    """Tuple of field keys (name or index) in a place's projection, ignoring deref/downcast."""
    out = []
    for pr in place["proj"]:
        k = pr["k"]
        if k == "field":
            out.append(pr["name"] if pr["name"] is not None else pr["i"])
        elif k in ("deref", "downcast"):
            continue
        elif k in ("index", "cindex", "subslice"):
            out.append("[]")
        else:
            out.append("?")
    return tuple(out)


def place_field_idx(place):
    out = []
    for pr in place["proj"]:
        k = pr["k"]
        if k == "field":
            out.append(pr["i"])
        elif k in ("deref", "downcast"):
            continue
        else:
            out.append("[]")
    return tuple(out)


class Prov:
    """Field-sensitive, flow-insensitive intra-procedural provenance (P2)."""

    def __init__(self, body):
        self.b = body
        self.defs = defaultdict(list)  # local -> [(kind, bb, idx, obj)]
        self.memo = {}
        self._cuts = 0
        refs = {}  # local -> place it is a `&mut`/raw pointer to (if unique)
        for bi, bl in enumerate(body.blocks):
            for si, s in enumerate(bl["stmts"]):
                if s["k"] == "assign":
                    self.defs[s["p"]["l"]].append(("S", bi, si, s))
                    rv = s["rv"]
                    if rv["k"] in ("ref", "rawptr") and not s["p"]["proj"]:
                        refs.setdefault(s["p"]["l"], []).append(rv["p"])
            t = bl["term"]
            if t["k"] == "call":
                self.defs[t["dest"]["l"]].append(("C", bi, len(bl["stmts"]), t))
        # writes through a unique `&mut X` pointer are also definitions of X
        for bi, bl in enumerate(body.blocks):
            for si, s in enumerate(bl["stmts"]):
                if s["k"] != "assign":
                    continue
                p = s["p"]
                if p["proj"] and p["proj"][0]["k"] == "deref" and p["l"] in refs and len(refs[p["l"]]) == 1:
                    tgt = refs[p["l"]][0]
                    if not any(pr["k"] == "deref" for pr in tgt["proj"]):
                        self.defs[tgt["l"]].append(("A", bi, si, (s, tgt)))

    # -- public queries
    def op_src(self, o, path=()):
        return self._op(o, tuple(path), frozenset())

    def place_src(self, place, path=()):
        return self._place(place, tuple(path), frozenset())

    def local_src(self, l, path=()):
        return self._local(l, tuple(path), frozenset())

    # -- implementation
    def _op(self, o, path, stack):
        k = o["k"]
        if k in ("copy", "move"):
            return self._place(o["p"], path, stack)
        if k == "const":
            c = o["c"]
            if "fn" in c:
                return {Src("fnitem", norm(c["fn"]))}
            if "static" in c:
                return {Src("static", norm(c["static"]))}
            if "fnptr" in c:
                return {Src("fnitem", norm(c["fnptr"]))}
            if c.get("uneval"):
                pr = c.get("promoted", -1)
                if pr is not None and pr >= 0:
                    # promoted constant: continue into its body (value of its return place)
                    pb = self.b.prog.by_did.get((self.b.crate, c.get("udid", -1), pr)) or self.b.prog.bodies.get((self.b.crate, norm(c["uneval"]), pr))
                    if pb is not None and pb is not self.b:
                        return pb.prov.local_src(0, path) or {Src("const", c["d"], c["ty"], (norm(c["uneval"]), pr))}
                return {Src("const", c["d"], c["ty"], (norm(c["uneval"]), pr))}
            return {Src("const", c["d"], c["ty"])}
        return set()

    def _place(self, place, path, stack):
        l = place["l"]
        full = place_fields(place) + tuple(path)
        return self._local(l, full, stack)

    def _leaf(self, l, path):
        b = self.b
        if b.kind == "Closure" and l == 1:
            if path:
                idx = path[0]
                caps = b.captures or []
                name = None
                if isinstance(idx, int) and idx < len(caps):
                    name = caps[idx]
                else:
                    name = str(idx)
                return Src("upvar", name, tuple(path[1:]))
            return Src("upvar", "<env>", ())
        return Src("param", b.param_name(l), tuple(path))

    def _local(self, l, path, stack):
        key = (l, path)
        if key in self.memo:
            return self.memo[key]
        if key in stack:
            self._cuts += 1
            return set()
        cuts0 = self._cuts
        top = not stack
        stack = stack | {key}
        res = set()
        if 1 <= l <= self.b.arg_count:
            res.add(self._leaf(l, path))
        matched = 0
        for kind, bi, si, x in self.defs.get(l, ()):
            if kind == "C":
                matched += 1
                c = self.b.call_at(bi)
                res.add(Src("call", c.callee, bi))
                for a in x["args"]:
                    res |= self._op(a, (), stack)
                if c.decl is None or c.is_fn_trait_call:
                    res |= self._op(x["func"], (), stack)
                continue
            if kind == "A":
                s, tgt = x
                wpath = place_fields(tgt) + place_fields(s["p"])
            else:
                s = x
                wpath = place_fields(s["p"])
            rv = s["rv"]
            # a write *through* a pointer-typed local (`(*p).f = v`) changes the pointee, not the pointer:
            # a read of the pointer itself (empty path) does not see it
            if kind == "S" and wpath and not path and s["p"]["proj"] and s["p"]["proj"][0]["k"] == "deref":
                continue
            # does a write to `wpath` affect a read of `path`?
            rest = path
            if wpath:
                n = min(len(wpath), len(path))
                if wpath[:n] != path[:n]:
                    continue
                rest = path[len(wpath):] if len(path) >= len(wpath) else ()
            if len(wpath) <= len(path):
                matched += 1
            res |= self._rv(rv, rest, stack, bi, si)
        if matched > 1 or (matched == 1 and 1 <= l <= self.b.arg_count):
            # the value read here depends on the path taken (several definitions reach it): marker for "derives ONLY from" queries
            res.add(Src("phi", l, path))
        # a result computed while a cycle was cut below it is only complete at the top of the recursion
        if top or self._cuts == cuts0:
            self.memo[key] = res
        return res

    def _rv(self, rv, path, stack, bi, si):
        k = rv["k"]
        if k == "use":
            return self._op(rv["o"], path, stack)
        if k in ("ref", "rawptr"):
            return self._place(rv["p"], path, stack)
        if k == "discr":
            return {Src("discr", None, bi, si)} | self._place(rv["p"], (), stack)
        if k == "cast":
            return self._op(rv["o"], path, stack)
        if k == "binop":
            return {Src("binop", rv["op"], bi, si)} | self._op(rv["a"], (), stack) | self._op(rv["b"], (), stack)
        if k == "unop":
            return {Src("unop", rv["op"], bi, si)} | self._op(rv["o"], (), stack)
        if k == "agg":
            ops = rv["ops"]
            if path and rv["ak"] in ("tuple", "adt", "closure"):
                f = path[0]
                idx = None
                if isinstance(f, int):
                    idx = f
                elif rv["ak"] == "adt" and f in rv.get("fields", []):
                    idx = rv["fields"].index(f)
                if idx is not None and idx < len(ops):
                    return self._op(ops[idx], path[1:], stack)
                if idx is not None:
                    return set()
            res = set()
            if rv["ak"] == "adt":
                res.add(Src("variant", norm(rv["adt"]) + "::" + rv["variant"], bi, si))
            for o in ops:
                res |= self._op(o, (), stack)
            return res
        if k == "other":
            d = rv.get("d", "")
            if d.startswith("ThreadLocalRef") or "thread_local" in d:
                return {Src("static", d)}
            return {Src("other", d)}
        return set()


class Body:
    def __init__(self, prog, raw):
        self.prog = prog
        self.raw = raw
        self.raw_path = raw["path"]
        self.path = norm(raw["path"])
        self.kind = raw["kind"].split(" ")[0]
        self.promoted = raw["promoted"]
        self.blocks = raw["blocks"]
        self.arg_count = raw["arg_count"]
        self.locals = raw["locals"]
        self.captures = raw.get("captures")
        self.generics = raw.get("generics", [])
        self.parent = norm(raw.get("parent"))
        self.span = raw["span"]
        self._names = None
        self._prov = None
        self._calls = None
        self._succ = None
        self._pred = None
        self._dom = None
        self._loops = None

    def __repr__(self):
        return "<body %s%s>" % (self.path, "" if self.promoted < 0 else "[promoted %d]" % self.promoted)

    # -- names
    @property
    def names(self):
        """local index -> user name (whole-local debug entries only)."""
        if self._names is None:
            d = {}
            for e in self.raw["debug"]:
                p = e["p"]
                if not p["proj"]:
                    d.setdefault(p["l"], e["name"])
            self._names = d
        return self._names

    def param_name(self, l):
        return self.names.get(l, "_%d" % l)

    def local_ty_of_param(self, name):
        for l in range(1, self.arg_count + 1):
            if self.param_name(l) == name:
                return self.local_ty(l)
        return None

    def local_named(self, name):
        return [l for l, n in self.names.items() if n == name]

    def local_ty(self, l):
        return self.locals[l]["ty"]

    # -- cfg
    def term(self, b):
        return self.blocks[b]["term"]

    def inlined_chain(self, bb):
        """Names of the callees (outermost first) through which block `bb` was spliced into this body by lib.inline."""
        return tuple(self.blocks[bb].get("inl_chain") or ())

    def inlined_from(self, b):
        """Name of the local function block `b` was spliced in from by lib.inline (None for the body's own blocks). Rules that
        scan every reachable body terminator by terminator skip such copies: the original is scanned in its own body."""
        return self.blocks[b].get("inl")

    @staticmethod
    def _succs_of(t):
        k = t["k"]
        if k == "goto":
            return [t["t"]]
        if k == "switch":
            return [a[1] for a in t["arms"]] + [t["otherwise"]]
        if k in ("drop", "assert"):
            return [t["t"]]
        if k == "call":
            return [t["t"]] if t["t"] is not None else []
        if k == "asm":
            return list(t["ts"])
        return []

    @property
    def succ(self):
        if self._succ is None:
            self._succ = [self._succs_of(bl["term"]) for bl in self.blocks]
        return self._succ

    def unwind_of(self, b):
        return self.blocks[b]["term"].get("unwind")

    @property
    def pred(self):
        if self._pred is None:
            p = [[] for _ in self.blocks]
            for i, ss in enumerate(self.succ):
                for s in ss:
                    p[s].append(i)
            self._pred = p
        return self._pred

    def reach(self, starts, avoid=(), unwind=False, edge_filter=None):
        """Blocks reachable from `starts` (inclusive) without entering a block in `avoid`."""
        avoid = set(avoid)
        seen = set()
        wl = [s for s in starts if s not in avoid]
        while wl:
            x = wl.pop()
            if x in seen:
                continue
            seen.add(x)
            nxt = list(self.succ[x])
            if unwind:
                u = self.unwind_of(x)
                if u is not None:
                    nxt.append(u)
            for s in nxt:
                if s in avoid or s in seen:
                    continue
                if edge_filter is not None and not edge_filter(x, s):
                    continue
                wl.append(s)
        return seen

    def reach_back(self, targets, avoid=()):
        avoid = set(avoid)
        seen = set()
        wl = [t for t in targets if t not in avoid]
        while wl:
            x = wl.pop()
            if x in seen:
                continue
            seen.add(x)
            for p in self.pred[x]:
                if p not in avoid and p not in seen:
                    wl.append(p)
        return seen

    @property
    def returns(self):
        return [i for i, bl in enumerate(self.blocks) if bl["term"]["k"] == "return"]

    @property
    def live(self):
        """Blocks reachable from entry on normal edges."""
        return self.reach([0])

    def dominates(self, a, b):
        """Every normal path from entry to b passes through a (a == b counts)."""
        if a == b:
            return True
        return b not in self.reach([0], avoid=[a])

    def must_pass(self, frm, to, through):
        """Every normal path from block `frm` (after its terminator) to any block in `to`
        passes a block in `through`.  True also when `to` is unreachable."""
        through = set(through)
        starts = [s for s in self.succ[frm]]
        r = self.reach(starts, avoid=through)
        return not (r & set(to))

    def between(self, a_blocks, b_blocks):
        """Blocks on some normal path from (after) a block in A to a block in B (B inclusive,
        not continuing past B)."""
        b_blocks = set(b_blocks)
        fw = set()
        wl = []
        for a in a_blocks:
            wl.extend(self.succ[a])
        while wl:
            x = wl.pop()
            if x in fw:
                continue
            fw.add(x)
            if x in b_blocks:
                continue
            wl.extend(self.succ[x])
        bw = set()
        wl = [b for b in b_blocks if b in fw]
        while wl:
            x = wl.pop()
            if x in bw:
                continue
            bw.add(x)
            for p in self.pred[x]:
                if p in fw and p not in b_blocks:
                    wl.append(p)
        return fw & bw

    @property
    def dom(self):
        """Dominator sets on the normal CFG: dom[b] = set of blocks dominating b."""
        if self._dom is None:
            live = sorted(self.live)
            allb = set(live)
            dom = {b: set(allb) for b in live}
            dom[0] = {0}
            changed = True
            order = live
            while changed:
                changed = False
                for b in order:
                    if b == 0:
                        continue
                    ps = [p for p in self.pred[b] if p in dom]
                    if not ps:
                        continue
                    new = set(allb)
                    for p in ps:
                        new &= dom[p]
                    new.add(b)
                    if new != dom[b]:
                        dom[b] = new
                        changed = True
            self._dom = dom
        return self._dom

    @property
    def loops(self):
        """Natural loops: list of dicts {header, body(set), latches(list)} merged per header."""
        if self._loops is None:
            dom = self.dom
            by_header = {}
            for t in dom:
                for h in self.succ[t]:
                    if h in dom and h in dom[t]:
                        # back edge t -> h
                        body = {h}
                        wl = [t]
                        while wl:
                            x = wl.pop()
                            if x in body:
                                continue
                            body.add(x)
                            wl.extend(p for p in self.pred[x] if p in dom)
                        e = by_header.setdefault(h, {"header": h, "body": set(), "latches": []})
                        e["body"] |= body
                        e["latches"].append(t)
            self._loops = sorted(by_header.values(), key=lambda e: e["header"])
        return self._loops

    def loops_containing(self, b):
        return [l for l in self.loops if b in l["body"]]

    def innermost_loop(self, b):
        ls = self.loops_containing(b)
        if not ls:
            return None
        return min(ls, key=lambda l: len(l["body"]))

    def once_per_iteration(self, b, loop):
        """Block b executes exactly once per iteration of `loop` that reaches a latch:
        b is in the loop, in no inner loop, and every latch is dominated by b within the loop
        (i.e. no path header -> latch avoiding b)."""
        if b not in loop["body"]:
            return False
        inner = self.innermost_loop(b)
        if inner is not None and inner["header"] != loop["header"]:
            return False
        outside = set(range(len(self.blocks))) - loop["body"]
        r = self.reach([loop["header"]], avoid=outside | {b}) if b != loop["header"] else set()
        return not any(l in r for l in loop["latches"])

    # -- calls
    def call_at(self, bb):
        return self._call_map.get(bb)

    @property
    def calls(self):
        if self._calls is None:
            self._calls = []
            self._cm = {}
            for i, bl in enumerate(self.blocks):
                if bl["term"]["k"] == "call":
                    c = Call(self, i, bl["term"])
                    self._calls.append(c)
                    self._cm[i] = c
        return self._calls

    @property
    def _call_map(self):
        self.calls
        return self._cm

    def live_calls(self, cleanup=False):
        live = self.live
        out = []
        for c in self.calls:
            if c.bb in live or (cleanup and self.blocks[c.bb]["cleanup"]):
                out.append(c)
        return out

    def calls_named(self, *suffixes, live_only=True):
        out = []
        live = self.live
        for c in self.calls:
            if live_only and c.bb not in live:
                continue
            n = c.name
            cal = c.callee
            if any(_match(n, s) or _match(cal, s) for s in suffixes):
                out.append(c)
        return out

    @property
    def prov(self):
        if self._prov is None:
            self.calls  # build call map first
            self._prov = Prov(self)
        return self._prov

    # -- statements
    def stmts(self, live_only=True):
        live = self.live if live_only else None
        for bi, bl in enumerate(self.blocks):
            if live is not None and bi not in live:
                continue
            for si, s in enumerate(bl["stmts"]):
                yield bi, si, s

    def switches(self, live_only=True):
        live = self.live if live_only else None
        for bi, bl in enumerate(self.blocks):
            if live is not None and bi not in live:
                continue
            if bl["term"]["k"] == "switch":
                yield bi, bl["term"]

    def where(self, bb):
        t = self.blocks[bb]["term"]
        sp = t.get("span") or t.get("tspan") or self.span
        return "%s:%s" % (sp["file"], sp["line"])


def _match(name, pat):
    """Suffix match on `::` boundaries; a pattern starting with `=` must match exactly."""
    if name is None:
        return False
    if pat.startswith("="):
        return name == pat[1:]
    if name == pat:
        return True
    return name.endswith("::" + pat) or name.endswith(pat) and (len(name) == len(pat) or name[-len(pat) - 1] in ":> ")


class Program:
    """All fact files of one configuration."""

    def __init__(self, factdir, cfg):
        self.cfg = cfg
        self.crates = {}
        self.bodies = {}  # (crate_key, path, promoted) -> Body
        self.by_did = {}  # (crate_key, def index, promoted) -> Body
        self.facts = defaultdict(list)  # crate_key -> facts
        files = sorted(glob.glob(os.path.join(factdir, "*.json")))
        if not files:
            raise RuntimeError("no fact files in " + factdir)
        texts = {}
        for f in files:
            with open(f) as fh:
                texts[f] = fh.read()
        # renamed types / variants / fields / functions are mapped back to the names the rules know (lib/rename.py)
        from . import rename as _rename
        parsed, self.renames = _rename.normalise(texts)
        for f in files:
            d = parsed[f]
            ck = d["crate"] + (".test" if d.get("test") else "")
            self.crates[ck] = {"cfg": d.get("cfg", []), "file": os.path.basename(f), "bodies": len(d["bodies"])}
            cur_suffix = {}
            for raw in d["bodies"]:
                b = Body(self, raw)
                b.crate = ck
                # def_path_str does not disambiguate same-named items of one scope (e.g. five `const SUFFIXES` in the arms of
                # one match): number the duplicates; a body's promoted constants follow it in the file and share its suffix
                if b.promoted < 0:
                    if (ck, b.path, -1) in self.bodies:
                        n = 1
                        while (ck, "%s#%d" % (b.path, n), -1) in self.bodies:
                            n += 1
                        cur_suffix[b.path] = "#%d" % n
                    else:
                        cur_suffix[b.path] = ""
                sfx = cur_suffix.get(b.path, "")
                if sfx:
                    b.path = b.path + sfx
                self.bodies[(ck, b.path, b.promoted)] = b
                if "did" in raw:
                    self.by_did[(ck, raw["did"], b.promoted)] = b
            self.facts[ck] = d["facts"]
        self._children = None
        self._resolve_literal_consts()

    def _resolve_literal_consts(self):
        """A named constant whose whole definition is one string literal (`const BRANCH_LAST: &str = "╰─ "`) is read as
        that literal wherever it is used: naming a literal does not change what the code does, and the rules compare
        literals. (Scalar constants are already evaluated by the exporter.)"""
        lit = {}
        for (ck, path, pr), b in self.bodies.items():
            if pr >= 0 or len(b.blocks) != 1 or b.kind not in ("Const", "AssocConst", "Static"):
                continue
            st = [x for x in b.blocks[0]["stmts"] if x["k"] == "assign"]
            if len(st) == 1 and st[0]["p"]["l"] == 0 and not st[0]["p"]["proj"] and st[0]["rv"]["k"] == "use" and st[0]["rv"]["o"]["k"] == "const":
                c = st[0]["rv"]["o"]["c"]
                if c.get("ty") in ("&str", "&'static str") and str(c.get("d", "")).startswith('"') and not c.get("uneval"):
                    lit[(ck, path)] = c
        if not lit:
            return

        def walk(x, ck):
            if isinstance(x, dict):
                c = x.get("c")
                if x.get("k") == "const" and isinstance(c, dict) and c.get("uneval") and (c.get("promoted") in (None, -1)):
                    tgt = lit.get((ck, norm(c["uneval"])))
                    if tgt is not None:
                        x["c"] = dict(tgt, named=c.get("d"))
                        return
                for v in x.values():
                    walk(v, ck)
            elif isinstance(x, list):
                for v in x:
                    walk(v, ck)
        for (ck, path, pr), b in self.bodies.items():
            walk(b.blocks, ck)

    # -- lookup in the main library crate
    def lib_bodies(self, crate="divan"):
        return [b for (ck, _, pr), b in self.bodies.items() if ck == crate and pr < 0]

    def owner_bodies(self, crate="divan"):
        """lib_bodies without the helpers lib.inline absorbed into every one of their callers: the bodies a search for
        "the function that does X" should look at - X shows up in the caller that the helper was spliced into."""
        ab = getattr(self, "_absorbed", ())
        return [b for b in self.lib_bodies(crate) if (b.crate, b.path) not in ab]

    def all_bodies(self, promoted=False):
        return [b for (ck, _, pr), b in self.bodies.items() if promoted or pr < 0]

    def body(self, path, crate="divan", promoted=-1):
        return self.bodies.get((crate, norm(path), promoted))

    def find(self, suffix, crate="divan"):
        """Bodies whose normalised path ends with `suffix` on a `::` boundary."""
        out = []
        for b in self.lib_bodies(crate):
            if _match(b.path, suffix):
                out.append(b)
        return out

    def one(self, suffix, crate="divan"):
        r = self.find(suffix, crate)
        if len(r) == 1:
            return r[0]
        return None

    def children(self, body):
        """Closures and nested fns whose parent is `body`."""
        if self._children is None:
            ch = defaultdict(list)
            for b in self.all_bodies():
                if b.parent:
                    ch[(b.crate, b.parent)].append(b)
            self._children = ch
        own = self._children.get((body.crate, body.path), [])
        spl = getattr(body, "spliced_closures", None)
        if spl:
            # closures whose body lib.inline spliced into this function (`c.then(|| e)` spelled out as if/else): their
            # statements are this function's now; closures nested in them belong to it as well
            own = [c for c in own if c.path not in spl] + [g for nm in spl for g in self._children.get((body.crate, nm), [])]
        if getattr(body, "inlined", None):
            # closures built by statements spliced in from a helper (lib.inline) belong to this body as well
            extra = []
            for bl in body.blocks:
                if not bl.get("inl"):
                    continue
                for s in bl["stmts"]:
                    if s["k"] == "assign" and s["rv"]["k"] == "agg" and s["rv"].get("ak") == "closure":
                        cb = self.bodies.get((body.crate, norm(s["rv"]["def"]), -1))
                        if cb is not None and cb not in own and cb not in extra:
                            extra.append(cb)
            if extra:
                return list(own) + extra
        return own

    def closure_tree(self, body):
        out = [body]
        for c in self.children(body):
            out.extend(self.closure_tree(c))
        return out

    def promoted(self, body, idx, const=None):
        """Promoted constant `idx` of `body`; pass the constant operand when the statement may have been inlined from
        another function (its `uneval` names the function the promoted belongs to)."""
        if const is not None and const.get("uneval"):
            r = self.bodies.get((body.crate, norm(const["uneval"]), idx))
            if r is not None:
                return r
        return self.bodies.get((body.crate, body.path, idx))

    def const_body(self, crate, const_operand):
        """Body of the (local, non-promoted) constant named by a constant operand, resolved by def index."""
        c = const_operand["c"] if "c" in const_operand else const_operand
        if c.get("udid", -1) >= 0:
            return self.by_did.get((crate, c["udid"], c.get("promoted", -1) if c.get("promoted", -1) is not None else -1))
        return None

    def parent_body(self, body):
        if body.parent is None:
            return None
        par = self.bodies.get((body.crate, body.parent, -1))
        if par is not None and (par.crate, par.path) in getattr(self, "_absorbed", ()):
            # the closure is built by a helper that lib.inline spliced into its caller(s): the body that builds it now
            hosts = self.hosts_of(body)
            if len(hosts) == 1:
                return hosts[0]
        return par

    def hosts_of(self, closure):
        """Bodies (absorbed helpers excepted) that contain the statement building `closure`."""
        cache = self.__dict__.setdefault("_hosts", {})
        key = (closure.crate, closure.path)
        if key not in cache:
            ab = getattr(self, "_absorbed", ())
            out = []
            for (ck, pth, pr), b in self.bodies.items():
                if ck != closure.crate or pr >= 0 or (ck, pth) in ab:
                    continue
                if any(s["k"] == "assign" and s["rv"]["k"] == "agg" and s["rv"].get("ak") == "closure" and norm(s["rv"]["def"]) == closure.path
                       for bl in b.blocks for s in bl["stmts"]):
                    out.append(b)
            cache[key] = out
        return cache[key]

    def capture_operand(self, closure, upvar):
        """The operand the parent body stores into the closure for captured variable `upvar`:
        (parent_body, operand, bb) or None."""
        par = self.parent_body(closure)
        if par is None or closure.captures is None or upvar not in closure.captures:
            return None
        idx = closure.captures.index(upvar)
        for bi, si, s in par.stmts(live_only=False):
            rv = s.get("rv")
            if s["k"] == "assign" and rv and rv["k"] == "agg" and rv["ak"] == "closure" and norm(rv["def"]) == closure.path:
                if idx < len(rv["ops"]):
                    return par, rv["ops"][idx], bi
        return None

    # -- type facts
    def adt(self, suffix, crate="divan"):
        r = [f for f in self.facts[crate] if f["fact"] == "adt" and _match(norm(f["path"]), suffix)]
        return r[0] if len(r) == 1 else None

    def statics(self, crate="divan"):
        return [f for f in self.facts[crate] if f["fact"] == "static"]

    def impls(self, crate="divan"):
        return [f for f in self.facts[crate] if f["fact"] == "impl"]

    def fn_fact(self, suffix, crate="divan"):
        r = [f for f in self.facts[crate] if f["fact"] == "fn" and _match(norm(f["path"]), suffix)]
        return r[0] if len(r) == 1 else None

    # -- call graph
    def callers_of(self, *suffixes, crates=None):
        out = []
        absorbed = getattr(self, "_absorbed", ())
        for b in self.all_bodies():
            if crates is not None and b.crate not in crates:
                continue
            if (b.crate, b.path) in absorbed:
                continue    # a helper that only exists as copies inside its callers (lib.inline): its calls are found there
            for c in b.calls:
                if any(_match(c.callee, s) for s in suffixes):
                    out.append(c)
        return out

    def impls_for_gargs(self, crate, gargs, callee=None):
        """Local trait-impl method bodies `<T as Trait>::m` whose Self type T is named in one of the generic args."""
        out = []
        if not gargs:
            return out
        if not hasattr(self, "_impl_index"):
            idx = {}
            for b in self.all_bodies():
                if b.path.startswith("<") and " as " in b.path and b.kind == "AssocFn":
                    ty = b.path[1:b.path.index(" as ")]
                    ty = ty.split("<")[0].lstrip("&").strip()
                    if "::" in ty and not ty.startswith(("std::", "core::", "alloc::")):
                        idx.setdefault((b.crate, ty), []).append(b)
            self._impl_index = idx
        last = (callee or "").rsplit("::", 1)[-1]
        if last in ("new_display", "to_string") or (callee or "").endswith("fmt::Display::fmt"):
            traits = ("std::fmt::Display",)
        elif last in ("new_debug",):
            traits = ("std::fmt::Debug",)
        elif last in ("into", "from", "try_into", "try_from"):
            traits = ("std::convert::From", "std::convert::Into", "std::convert::TryFrom")
        elif last in ("parse", "from_str"):
            traits = ("std::str::FromStr",)
        else:
            traits = ("std::iter::Iterator", "std::cmp::Ord", "std::cmp::PartialOrd", "std::cmp::PartialEq", "std::default::Default",
                      "std::clone::Clone", "std::iter::Sum", "std::ops::Add", "std::ops::AddAssign", "std::ops::Sub", "std::ops::Mul",
                      "std::ops::Div", "std::ops::Deref", "std::ops::DerefMut", "std::iter::FromIterator", "std::ops::Drop", "std::hash::Hash",
                      "std::iter::IntoIterator", "std::iter::DoubleEndedIterator", "std::iter::ExactSizeIterator")
        for (ck, ty), bs in self._impl_index.items():
            if ck != crate:
                continue
            if any(ty in g for g in gargs):
                for b in bs:
                    tr = b.path[b.path.index(" as ") + 4:]
                    tr = tr[:tr.rindex(">::")] if ">::" in tr else tr
                    if tr.split("<")[0] in traits:
                        out.append(b)
        return out

    def callee_closure(self, roots, crate="divan", stop=lambda name: False, include_closures=True, follow_generic_impls=False):
        """Transitive set of callee names reachable from `roots` (Body list) through calls whose
        callee body is in this program (local fns) - returns (local bodies visited, external callee names,
        indirect call sites)."""
        seen = {}
        ext = {}
        indirect = []
        wl = list(roots)
        while wl:
            b = wl.pop()
            if (b.crate, b.path) in seen:
                continue
            seen[(b.crate, b.path)] = b
            for nm_ in getattr(b, "inlined", ()):
                # helpers spliced into this body by lib.inline are reached by it all the same
                tgt_ = self.bodies.get((b.crate, nm_, -1))
                if tgt_ is not None:
                    wl.append(tgt_)
            if include_closures:
                for ch in self.children(b):
                    if ch.kind == "Closure":
                        wl.append(ch)
            for c in b.live_calls():
                nm = c.callee
                if stop(nm):
                    ext.setdefault(nm, c)
                    continue
                tgt = self.bodies.get((b.crate, nm, -1)) or self.bodies.get((crate, nm, -1))
                if tgt is not None:
                    wl.append(tgt)
                elif c.decl is None or (c.is_fn_trait_call and not (c.resolved and "{closure#" in c.resolved)):
                    indirect.append(c)
                else:
                    ext.setdefault(nm, c)
                    if follow_generic_impls:
                        wl.extend(self.impls_for_gargs(b.crate, c.gargs, nm))
                if follow_generic_impls:
                    # local fn items passed by value (e.g. `.map(FineDuration::from)`)
                    for a in c.args:
                        if a["k"] == "const" and "fn" in a["c"]:
                            fb = self.bodies.get((b.crate, norm(a["c"]["fn"]), -1))
                            if fb is not None:
                                wl.append(fb)
        return list(seen.values()), ext, indirect


def place_root_fields(body, place, depth=14):
    """(root local, field path) of a place, seen through pointers held in single-definition temporaries:
    `_9 = &mut (*_1).samples; (*_9).sample_size = ..` designates (1, ("samples", "sample_size")). Used where a store may be
    made by a helper that lib.inline spliced into the function (its `self` is then such a temporary)."""
    l = place["l"]
    fields = tuple(place_fields(place))
    for _ in range(depth):
        defs = [d for d in body.prov.defs.get(l, []) if d[0] != "S" or not d[3]["p"]["proj"]]
        if len(defs) != 1 or defs[0][0] != "S":
            break
        rv = defs[0][3]["rv"]
        src = rv["p"] if rv["k"] in ("ref", "rawptr") else (rv["o"]["p"] if rv["k"] == "use" and rv["o"]["k"] in ("copy", "move") else None)
        if src is None or any(p["k"] not in ("deref", "field") for p in src["proj"]):
            break
        fields = tuple(place_fields(src)) + fields
        l = src["l"]
    return l, fields


def nophi(srcs):
    """True when no path-dependent merge (a local with several definitions) lies on the provenance of the value: an
    existential `derives from X` then means `is computed from X on every path`."""
    return not any(s.kind == "phi" for s in srcs)


def direct_place(body, op, depth=12):
    """Follow single-definition copy/move/cast/reborrow chains from an operand to the first place that has
    field projections (or to a call/other definition). Returns ("place", base_local, fields) |
    ("call", Call) | ("const", operand) | None."""
    cur = op
    for _ in range(depth):
        if cur["k"] == "const":
            return ("const", cur)
        if cur["k"] not in ("copy", "move"):
            return None
        p = cur["p"]
        fs = place_fields(p)
        if fs:
            return ("place", p["l"], fs)
        l = p["l"]
        if 1 <= l <= body.arg_count:
            return ("place", l, ())
        defs = body.prov.defs.get(l, [])
        if len(defs) != 1:
            return None
        d = defs[0]
        if d[0] == "C":
            return ("call", body.call_at(d[1]))
        if d[0] != "S":
            return None
        rv = d[3]["rv"]
        if rv["k"] in ("use", "cast"):
            cur = rv["o"]
            continue
        if rv["k"] in ("ref", "rawptr"):
            cur = {"k": "copy", "p": rv["p"]}
            continue
        return ("rvalue", rv, d[1], d[2])
    return None


def origins(body, op, depth=14, _seen=None):
    """All terminal origins of an operand's value over *every* definition (copy/move/cast/reborrow chains are followed,
    multi-definition locals branch).  Returns a list of ("place", base_local, fields, def_bb) | ("call", Call) |
    ("const", operand) | ("rvalue", rv, bb) | ("unknown",)."""
    _seen = _seen if _seen is not None else set()
    if op["k"] == "const":
        return [("const", op)]
    if op["k"] not in ("copy", "move"):
        return [("unknown",)]
    p = op["p"]
    fs = place_fields(p)
    l = p["l"]
    if 1 <= l <= body.arg_count:
        return [("place", l, fs, None)]
    if fs:
        # projection of a local: origins of the base, with the fields appended when the base is a place
        out = []
        for o in origins(body, {"k": "copy", "p": {"l": l, "proj": [], "ty": ""}}, depth - 1, _seen):
            if o[0] == "place":
                out.append(("place", o[1], tuple(o[2]) + fs, o[3]))
            elif o[0] == "rvalue" and o[1]["k"] == "agg" and o[1].get("ak") in ("closure", "tuple") and isinstance(fs[0], int) and fs[0] < len(o[1]["ops"]) and depth > 0:
                # a capture read back from the closure value (a closure body spliced into its parent, lib.inline) / a tuple element
                for o2 in origins(body, o[1]["ops"][fs[0]], depth - 1, _seen):
                    out.append(("place", o2[1], tuple(o2[2]) + tuple(fs[1:]), o2[3]) if o2[0] == "place" else o2)
            else:
                out.append(o)
        return out
    if depth <= 0 or l in _seen:
        return [("unknown",)]
    _seen = _seen | {l}
    out = []
    defs = body.prov.defs.get(l, [])
    if not defs:
        return [("unknown",)]
    for d in defs:
        if d[0] == "C":
            out.append(("call", body.call_at(d[1])))
        elif d[0] == "S":
            if d[3]["p"]["proj"]:
                continue
            rv = d[3]["rv"]
            if rv["k"] in ("use", "cast"):
                out += origins(body, rv["o"], depth - 1, _seen)
            elif rv["k"] in ("ref", "rawptr"):
                sub = origins(body, {"k": "copy", "p": rv["p"]}, depth - 1, _seen)
                out += [(o[0], o[1], o[2], d[1]) if o[0] == "place" and o[3] is None else o for o in sub]
            else:
                out.append(("rvalue", rv, d[1]))
    return out


def const_int(op):
    """Integer value of a constant operand, or None."""
    if op["k"] != "const":
        return None
    c = op["c"]
    if "bits" in c:
        return int(c["bits"])
    return None


def const_signed(op):
    v = const_int(op)
    if v is None:
        return None
    size = op["c"].get("size", 0)
    ty = op["c"]["ty"]
    if ty.startswith("i") and size:
        bits = size * 8
        if v >= 1 << (bits - 1):
            v -= 1 << bits
    return v


def op_local(op):
    if op["k"] in ("copy", "move") and not op["p"]["proj"]:
        return op["p"]["l"]
    return None
