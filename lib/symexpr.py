"""Canonical value expressions over MIR (static value numbering, no execution, no solver).

`Sym(body).op(operand)` follows single-definition locals through copies, casts, reborrows, checked-arithmetic tuples and
pure calls and returns a canonical nested tuple.  Sums and differences are flattened into a linear normal form, products
are sorted, parameters are named by position - so the result does not change under renaming of locals, introduction of
temporaries, or re-association / commutation of `+` and `*`.  It identifies *which value* is computed; overflow behaviour
of the individual operations is not modelled (the panic clauses are decided elsewhere).

  ("int", v)                         integer constant
  ("arg", i, fields)                 i-th parameter (1-based), field path
  ("upvar", i, fields)               closure capture
  ("call", callee, (args...))        result of a pure call (PURE), identified by callee and argument values
  ("site", callee, bb)               result of any other call, identified by its call site
  ("payload", variant, field, e)     `(e as Variant).field`
  ("field", e, fields)               projection of a non-parameter value
  ("lin", ((atom, coef)...), k)      sum(coef*atom) + k   (atoms sorted by repr)
  ("mul", (factors...))              product (sorted)
  ("div"|"rem"|"shl"|"shr"|..., a, b)
  ("cmp", op, a, b)
  ("cast", ty, e)                    only when `keep_casts` (integer casts are transparent by default)
  ("un", op, e)
  ("phi", local)                     local with several definitions (value depends on the path)
  ("opaque", text)
"""
from .facts import norm, place_fields, const_int

PURE = (
    "core::num::saturating_sub", "core::num::saturating_add", "core::num::saturating_mul", "core::num::saturating_pow",
    "core::num::checked_sub", "core::num::checked_add", "core::num::checked_mul", "core::num::checked_div",
    "core::num::wrapping_sub", "core::num::wrapping_add", "core::num::wrapping_mul", "core::num::abs_diff",
    "core::num::overflowing_sub", "core::num::overflowing_add", "core::num::wrapping_abs", "core::num::unsigned_abs",
    "core::num::pow", "core::num::div_ceil", "core::num::next_power_of_two", "core::num::is_power_of_two",
    "std::cmp::Ord::max", "std::cmp::Ord::min", "std::cmp::max", "std::cmp::min", "core::cmp::Ord::max", "core::cmp::Ord::min",
    "std::num::NonZero::get", "core::str::len", "std::string::String::len", "core::slice::len", "std::vec::Vec::len",
)

COMMUTATIVE = {"BitAnd", "BitOr", "BitXor", "Eq", "Ne"}
ARITH_FLAT = {"Add": "Add", "AddWithOverflow": "Add", "AddUnchecked": "Add", "Sub": "Sub", "SubWithOverflow": "Sub", "SubUnchecked": "Sub",
              "Mul": "Mul", "MulWithOverflow": "Mul", "MulUnchecked": "Mul"}


def _lin_of(e):
    """Expression -> (dict atom->coef, const)."""
    if e[0] == "int":
        return {}, e[1]
    if e[0] == "lin":
        return dict(e[1]), e[2]
    return {e: 1}, 0


def _mk_lin(terms, k):
    terms = {a: c for a, c in terms.items() if c != 0}
    if not terms:
        return ("int", k)
    if k == 0 and len(terms) == 1:
        (a, c), = terms.items()
        if c == 1:
            return a
    return ("lin", tuple(sorted(terms.items(), key=repr)), k)


def add(a, b, sign=1):
    ta, ka = _lin_of(a)
    tb, kb = _lin_of(b)
    t = dict(ta)
    for x, c in tb.items():
        t[x] = t.get(x, 0) + sign * c
    return _mk_lin(t, ka + sign * kb)


def mul(a, b):
    if a[0] == "int" and b[0] == "int":
        return ("int", a[1] * b[1])
    for x, y in ((a, b), (b, a)):
        if x[0] == "int":
            t, k = _lin_of(y)
            return _mk_lin({z: c * x[1] for z, c in t.items()}, k * x[1])
    fa = list(a[1]) if a[0] == "mul" else [a]
    fb = list(b[1]) if b[0] == "mul" else [b]
    return ("mul", tuple(sorted(fa + fb, key=repr)))


class Sym:
    def __init__(self, body, pure=PURE, keep_casts=False, depth=40, site_args=False):
        self.b = body
        self.pure = set(pure)
        self.keep_casts = keep_casts
        self.site_args = site_args
        self.depth = depth
        self.memo = {}

    # -- entry points
    def op(self, o, _d=0):
        k = o["k"]
        if k == "const":
            v = const_int(o)
            if v is not None:
                ty = o["c"].get("ty", "")
                size = o["c"].get("size", 0)
                if ty.startswith("i") and size and v >= 1 << (size * 8 - 1):
                    v -= 1 << (size * 8)
                return ("int", v)
            c = o["c"]
            for key in ("fn", "static", "fnptr", "uneval"):
                if c.get(key):
                    return ("opaque", "%s:%s" % (key, norm(c[key]) if isinstance(c[key], str) else c[key]))
            return ("opaque", "const:%s" % c.get("d"))
        if k in ("copy", "move"):
            return self.place(o["p"], _d)
        return ("opaque", "op:%s" % k)

    def place(self, p, _d=0):
        l = p["l"]
        proj = p["proj"]
        # deref chains of references are transparent
        fields = []
        downcast = None
        base = self.local(l, _d)
        cur = base
        for pr in proj:
            if pr["k"] == "deref":
                continue
            if pr["k"] == "downcast":
                downcast = pr.get("name") or pr.get("v") or pr.get("i")
                continue
            if pr["k"] == "field":
                f = pr["name"] if pr.get("name") is not None else pr["i"]
                if isinstance(f, str) and f.isdigit():
                    f = int(f)
                if downcast is not None:
                    cur = ("payload", downcast, f, cur)
                    downcast = None
                else:
                    cur = self._field(cur, f)
                continue
            cur = ("opaque", "proj:%s" % pr["k"])
        return cur

    def _field(self, e, f):
        if e[0] in ("arg", "upvar"):
            return (e[0], e[1], e[2] + (f,))
        if e[0] == "field":
            return ("field", e[1], e[2] + (f,))
        if e[0] == "tuple" and isinstance(f, int) and f < len(e[1]):
            return e[1][f]
        if e[0] == "ovf":  # (value, overflowed) of a checked binop
            return e[1] if f == 0 else ("opaque", "overflow-flag")
        return ("field", e, (f,))

    def local(self, l, _d=0):
        if l in self.memo:
            return self.memo[l]
        b = self.b
        if 1 <= l <= b.arg_count:
            if b.kind == "Closure" and l == 1:
                return ("upvar", 0, ())
            defs = [d for d in b.prov.defs.get(l, []) if d[0] == "S" and not d[3]["p"]["proj"]]
            if not defs:
                return ("arg", l, ())
        if _d > self.depth:
            return ("phi", l)
        defs = b.prov.defs.get(l, [])
        whole = [d for d in defs if d[0] == "C" or (d[0] == "S" and not d[3]["p"]["proj"])]
        if len(whole) != 1 or len(defs) != len(whole):
            # aggregate built field by field, or several definitions: path dependent
            r = ("phi", l)
            self.memo[l] = r
            return r
        self.memo[l] = ("phi", l)  # cycle guard
        d = whole[0]
        if d[0] == "C":
            c = b.call_at(d[1])
            if c.callee in self.pure:
                r = ("call", c.callee, tuple(self.op(a, _d + 1) for a in c.args))
            else:
                r = ("site", c.callee, d[1]) + ((tuple(self.op(a, _d + 1) for a in c.args),) if self.site_args else ())
        else:
            r = self.rv(d[3]["rv"], _d + 1)
        self.memo[l] = r
        return r

    def rv(self, rv, _d=0):
        k = rv["k"]
        if k == "use":
            return self.op(rv["o"], _d)
        if k in ("ref", "rawptr"):
            return self.place(rv["p"], _d)
        if k == "cast":
            e = self.op(rv["o"], _d)
            ck = rv.get("ck", "")
            if "IntToInt" in ck:
                return ("cast", rv.get("ty", ""), e) if self.keep_casts else e
            if ck.startswith("PointerCoercion") or ck in ("PtrToPtr", "Transmute"):
                return e
            return ("cast", rv.get("ty", ""), e)
        if k == "binop":
            a = self.op(rv["a"], _d)
            c = self.op(rv["b"], _d)
            op = rv["op"]
            flat = ARITH_FLAT.get(op)
            if flat == "Add":
                r = add(a, c)
            elif flat == "Sub":
                r = add(a, c, -1)
            elif flat == "Mul":
                r = mul(a, c)
            elif op in ("Eq", "Ne", "Lt", "Le", "Gt", "Ge"):
                if op in ("Gt", "Ge"):
                    op = {"Gt": "Lt", "Ge": "Le"}[op]
                    a, c = c, a
                elif op in COMMUTATIVE and repr(c) < repr(a):
                    a, c = c, a
                r = ("cmp", op, a, c, "signed") if _signed_cmp(rv) else ("cmp", op, a, c)
            else:
                if op in COMMUTATIVE and repr(c) < repr(a):
                    a, c = c, a
                r = (op.lower(), a, c)
            return ("ovf", r) if op.endswith("WithOverflow") else r
        if k == "unop":
            return ("un", rv["op"], self.op(rv["o"], _d))
        if k == "agg":
            if rv["ak"] in ("tuple", "closure"):     # a closure value is the tuple of its captures
                return ("tuple", tuple(self.op(o, _d) for o in rv["ops"]))
            if rv["ak"] == "adt":
                return ("adt", norm(rv["adt"]), rv.get("variant"), tuple(self.op(o, _d) for o in rv["ops"]))
            return ("opaque", "agg:%s" % rv["ak"])
        if k == "discr":
            return ("discr", self.place(rv["p"], _d))
        if k == "len":
            return ("call", "len", (self.place(rv["p"], _d),))
        return ("opaque", "%s:%s" % (k, rv.get("d", "")))


def show(e):
    """Human-readable rendering for reports."""
    k = e[0]
    if k == "int":
        return str(e[1])
    if k in ("arg", "upvar"):
        return "%s%d%s" % (k, e[1], "".join("." + str(f) for f in e[2]))
    if k == "call":
        return "%s(%s)" % (e[1].rsplit("::", 1)[-1], ", ".join(show(a) for a in e[2]))
    if k == "site" and len(e) == 3:
        return "%s@bb%d" % (e[1].rsplit("::", 1)[-1], e[2])
    if k == "payload":
        return "(%s as %s).%s" % (show(e[3]), e[1], e[2])
    if k == "field":
        return show(e[1]) + "".join("." + str(f) for f in e[2])
    if k == "lin":
        parts = []
        for a, c in e[1]:
            parts.append(("%+d*" % c if abs(c) != 1 else ("+" if c > 0 else "-")) + show(a))
        if e[2]:
            parts.append("%+d" % e[2])
        return "(" + " ".join(parts).lstrip("+") + ")"
    if k == "mul":
        return "(" + " * ".join(show(a) for a in e[1]) + ")"
    if k == "cmp":
        return "(%s %s %s)" % (show(e[2]), e[1], show(e[3]))
    if k == "cast":
        return "(%s as %s)" % (show(e[2]), e[1])
    if k == "un":
        return "%s(%s)" % (e[1], show(e[2]))
    if k == "phi":
        return "phi(_%d)" % e[1]
    if k == "tuple":
        return "(" + ", ".join(show(a) for a in e[1]) + ")"
    if k == "adt":
        return "%s::%s(%s)" % (e[1].rsplit("::", 1)[-1], e[2], ", ".join(show(a) for a in e[3]))
    if k == "discr":
        return "discr(%s)" % show(e[1])
    if k == "opaque":
        return "<%s>" % e[1]
    if k == "cell":
        return "*%s@bb%s%s" % (e[1][1].rsplit("::", 1)[-1], e[1][2], "".join("." + str(f) for f in e[2]))
    if k in ("ptr", "sptr"):
        return "&[%s%s]" % (e[1][0] if not isinstance(e[1][0], tuple) else e[1][0][1].rsplit("::", 1)[-1], "".join("." + str(f) for f in e[1][1]))
    if k == "after":
        return "<after %s@bb%s>" % (e[1].rsplit("::", 1)[-1], e[2])
    if k == "undef":
        return "undef(_%s)" % e[1]
    if k == "upd":
        return "%s{%s=%s}" % (show(e[1]), ".".join(str(f) for f in e[2]), show(e[3]))
    if k == "site" and len(e) > 3:
        return "%s@bb%d(%s)" % (e[1].rsplit("::", 1)[-1], e[2], ", ".join(show(a) for a in e[3]))
    if len(e) == 3 and isinstance(e[1], tuple) and isinstance(e[2], tuple):
        return "(%s %s %s)" % (show(e[1]), k, show(e[2]))
    return repr(e)


_SIGNED_TYS = ("i8", "i16", "i32", "i64", "i128", "isize")


def _signed_cmp(rv):
    """The operands of this comparison are signed integers (then `0 < x` is not `x != 0`)."""
    for o in (rv.get("a"), rv.get("b")):
        if not o:
            continue
        ty = o["p"].get("ty") if o.get("k") in ("copy", "move") else (o.get("c") or {}).get("ty")
        if ty in _SIGNED_TYS:
            return True
    return False


def canon_cmp(e, unsigned=True):
    """("cmp", op, a, b) -> (atom, polarity) with atom in canonical form: only `Lt` and `Eq` remain (Le/Ne become negated
    Lt/Eq; Gt/Ge were already swapped by Sym), Eq operands are sorted, and comparisons of an unsigned value with 0 / 1
    are all expressed as Eq(0, x):  0 < x, x != 0, 1 <= x  ==  not Eq(0, x);   x <= 0, x < 1  ==  Eq(0, x)."""
    if e[0] != "cmp":
        return None, True
    op, a, b = e[1], e[2], e[3]
    unsigned = unsigned and len(e) < 5      # ("cmp", op, a, b, "signed"): a comparison of signed integers
    pol = True
    if op == "Le":          # a <= b  ==  not (b < a)
        op, a, b, pol = "Lt", b, a, False
    elif op == "Ne":
        op, pol = "Eq", False
    if op == "Lt" and b[0] == "int" and a[0] != "int":
        # integer constants go to the left:  x < k  ==  not (k-1 < x)
        a, b, pol = ("int", b[1] - 1), a, not pol
    if unsigned and op == "Lt" and a == ("int", 0):     # 0 < x  ==  x != 0
        op, pol = "Eq", not pol
    if op == "Eq" and repr(b) < repr(a):
        a, b = b, a
    return (op, a, b), pol


def bool_switch(body, sym, bi):
    """For a switchInt block whose discriminant is a comparison: (atom, target when the atom holds, target otherwise)."""
    t = body.term(bi)
    if t["k"] != "switch":
        return None
    e = sym.op(t["discr"])
    neg = False
    while e[0] == "un" and e[1] == "Not":
        e = e[2]
        neg = not neg
    atom, pol = canon_cmp(e)
    if atom is None:
        return None
    arms = {int(a[0]): a[1] for a in t["arms"]}
    if set(arms) - {0, 1}:
        return None
    f_t = arms.get(0, t["otherwise"])
    t_t = arms.get(1, t["otherwise"])
    if f_t == t_t:
        return None
    if neg:
        t_t, f_t = f_t, t_t
    return (atom, t_t, f_t) if pol else (atom, f_t, t_t)
