"""Rename normalisation: map renamed types, enum variants, struct fields and functions back to the names the rules know.

The rules identify the code they check by the names it has on the reference tree (`alloc::ThreadAllocInfo::tally_alloc`,
field `ref_count`, variant `Tune`). A rename is the most common behaviour-preserving edit, and without help every rule
anchored in the renamed item fails closed. `tables/names.json` (written by `tools/snapshot_names.py`) records, for the
reference tree, every ADT with its variants and field types and every function with its signature. When the fact files of
the tree under analysis are loaded, names of the snapshot that have disappeared are matched against names that have
appeared:

  * a type:     same module, same kind, same shape (variant count, per variant the same field types) - unique candidate;
  * a variant:  same enum, same position and same field types (the set of the other variants unchanged);
  * a field:    same struct/variant, same type, unique candidate (or same position when the types repeat);
  * a function: same parent (module / impl type), same kind, identical signature - unique candidate.

A match is applied by rewriting the new name to the old one in the loaded facts (types and function paths textually with
identifier boundaries, variants and fields structurally), so every rule, table and message keeps working. The snapshot is
never used to report anything: an item that is new, or a rename that cannot be matched uniquely, is simply left alone (the
rules then behave as they did before this layer existed). Matching is by structure only, so a change that renames an item
*and* alters it is still analysed - under the old name.
"""
import json
import os
import re

VERIF = os.path.dirname(os.path.dirname(os.path.abspath(__file__)))
SNAPSHOT = os.path.join(VERIF, "tables", "names.json")
_ID = "A-Za-z0-9_"


def _norm(path):
    from .facts import norm
    return norm(path)


def summarise(d):
    """{'adts': {path: {...}}, 'fns': {normpath: {...}}} of one parsed fact file."""
    adts = {}
    for f in d["facts"]:
        if f["fact"] == "adt":
            adts[f["path"]] = {"kind": f["kind"], "variants": [{"name": v["name"], "fields": [[x["name"], x["ty"]] for x in v["fields"]]} for v in f["variants"]]}
    fns = {}
    for b in d["bodies"]:
        if b["promoted"] >= 0:
            continue
        kind = b["kind"].split(" ")[0]
        if kind not in ("Fn", "AssocFn"):
            continue
        p = _norm(b["path"])
        if p in fns:
            fns[p] = None           # ambiguous (same-named items in one scope): never aliased
            continue
        n = b["arg_count"]
        fns[p] = {"kind": kind, "parent": _norm(b.get("parent")), "sig": [l["ty"] for l in b["locals"][:n + 1]], "raw": b["path"]}
    return {"adts": adts, "fns": {k: v for k, v in fns.items() if v is not None}}


def _sub_ident(text, old, new):
    return re.sub(r"(?<![%s])%s(?![%s])" % (_ID, re.escape(old), _ID), new.replace("\\", "\\\\"), text)


def _shape(adt, self_path=None, as_path=None):
    out = []
    for v in adt["variants"]:
        tys = [t for _, t in v["fields"]]
        if self_path and as_path:
            tys = [_sub_ident(t, self_path, as_path) for t in tys]
        out.append(tys)
    return out


def type_aliases(snap, cur):
    """{new path: old path} for ADTs that were renamed within their module."""
    missing = [p for p in snap["adts"] if p not in cur["adts"]]
    new = [p for p in cur["adts"] if p not in snap["adts"]]
    out = {}
    for m in missing:
        mod = m.rsplit("::", 1)[0] if "::" in m else ""
        cands = []
        for n in new:
            if (n.rsplit("::", 1)[0] if "::" in n else "") != mod or cur["adts"][n]["kind"] != snap["adts"][m]["kind"]:
                continue
            if _shape(cur["adts"][n], n, m) == _shape(snap["adts"][m]):
                cands.append(n)
        if not cands:
            # moved to another module under its own name
            last = m.rsplit("::", 1)[-1]
            cands = [n for n in new if n.rsplit("::", 1)[-1] == last and cur["adts"][n]["kind"] == snap["adts"][m]["kind"] and
                     _shape(cur["adts"][n], n, m) == _shape(snap["adts"][m])]
        if len(cands) == 1 and cands[0] not in out:
            out[cands[0]] = m
    return out


def module_aliases(snap, cur):
    """{new module path: old module path} for modules renamed or moved as a whole: a module of the snapshot none of whose
    items exists any more, and a module that did not exist in the snapshot, holding items of the same names."""
    def modules(summary):
        out = {}
        for p in summary["adts"]:
            if "::" in p:
                out.setdefault(p.rsplit("::", 1)[0], set()).add(p.rsplit("::", 1)[-1])
        for p, f in summary["fns"].items():
            if f["kind"] == "Fn" and "::" in p:
                out.setdefault(p.rsplit("::", 1)[0], set()).add(p.rsplit("::", 1)[-1])
        return out
    om, nm = modules(snap), modules(cur)
    gone = {m: items for m, items in om.items() if m not in nm}
    came = {m: items for m, items in nm.items() if m not in om}
    out = {}
    for m, items in gone.items():
        cands = [n for n, it in came.items() if it == items]
        if len(cands) == 1 and len([m2 for m2, it in gone.items() if it == items]) == 1:
            out[cands[0]] = m
    return out


def member_aliases(snap, cur):
    """({(adt, new variant): old variant}, {(adt, variant index, new field): old field}) for ADTs present on both sides."""
    va, fa = {}, {}
    for p, old in snap["adts"].items():
        now = cur["adts"].get(p)
        if now is None or now["kind"] != old["kind"] or len(now["variants"]) != len(old["variants"]):
            continue
        onames = [v["name"] for v in old["variants"]]
        nnames = [v["name"] for v in now["variants"]]
        if old["kind"] == "enum":
            for i, (o, n) in enumerate(zip(onames, nnames)):
                if o != n and o not in nnames and n not in onames and [t for _, t in old["variants"][i]["fields"]] == [t for _, t in now["variants"][i]["fields"]]:
                    va[(p, n)] = o
        for i, (ov, nv) in enumerate(zip(old["variants"], now["variants"])):
            of, nf = ov["fields"], nv["fields"]
            gone = [(j, n_, t) for j, (n_, t) in enumerate(of) if n_ not in [x for x, _ in nf]]
            came = [(j, n_, t) for j, (n_, t) in enumerate(nf) if n_ not in [x for x, _ in of]]
            for j, n_, t in came:
                c = [g for g in gone if g[2] == t]
                if len(c) > 1:
                    c = [g for g in c if g[0] == j]     # repeated types: same position
                if len(c) == 1 and len([x for x in came if x[2] == t]) <= len([g for g in gone if g[2] == t]):
                    if len([x for x in came if x[2] == t]) == 1 or c[0][0] == j:
                        fa[(p, i, n_)] = c[0][1]
    return va, fa


def fn_aliases(snap, cur):
    """{new normalised path: (old normalised path, raw new path)} for functions renamed within their parent."""
    missing = [p for p in snap["fns"] if p not in cur["fns"]]
    new = [p for p in cur["fns"] if p not in snap["fns"]]
    out = {}
    for m in missing:
        o = snap["fns"][m]
        cands = [n for n in new if cur["fns"][n]["parent"] == o["parent"] and cur["fns"][n]["kind"] == o["kind"] and cur["fns"][n]["sig"] == o["sig"]]
        if not cands and o["kind"] == "Fn":
            # a free function moved to another module under its own name
            last = m.rsplit("::", 1)[-1]
            moved = [n for n in new if n.rsplit("::", 1)[-1] == last and cur["fns"][n]["kind"] == "Fn" and cur["fns"][n]["sig"] == o["sig"]]
            if len(moved) == 1 and moved[0] not in out:
                out[moved[0]] = m
            continue
        if len(cands) == 1 and cands[0] not in out:
            # ... and the old name has exactly one candidate too (two helpers with one signature swapped names: leave alone)
            back = [m2 for m2 in missing if snap["fns"][m2]["parent"] == o["parent"] and snap["fns"][m2]["kind"] == o["kind"] and snap["fns"][m2]["sig"] == o["sig"]]
            if len(back) == 1:
                out[cands[0]] = m
    return out


def _apply_fn_alias(text, new, old):
    """Rewrite the last path segment of function `new` (normalised path) to that of `old`, wherever the function is named:
    `<parent last segment>[::<generic args>]::<name>` or `<module path>::<name>`."""
    nl, ol = new.rsplit("::", 1)[-1], old.rsplit("::", 1)[-1]
    if nl == ol:
        return _sub_ident(text, new, old)       # moved, not renamed: the whole path
    parent = new.rsplit("::", 1)[0] if "::" in new else ""
    plast = parent.rsplit("::", 1)[-1] if parent else ""
    if not plast:
        return _sub_ident(text, nl, ol)
    # the parent's last segment, optionally followed by generic arguments (no quote inside: stay within one JSON string)
    pat = r"(?<![%s])(%s(?:::<[^\"]*?>)?(?:<[^\"]*?>)?::)%s(?![%s])" % (_ID, re.escape(plast), re.escape(nl), _ID)
    return re.sub(pat, lambda m_: m_.group(1) + ol, text)


def _walk_members(x, va_by_name, fa_by_name):
    if isinstance(x, dict):
        k = x.get("k")
        if k == "field" and x.get("name") in fa_by_name:
            x["name"] = fa_by_name[x["name"]]
        elif k == "downcast" and x.get("name") in va_by_name:
            x["name"] = va_by_name[x["name"]]
        elif k == "agg" and x.get("ak") == "adt":
            if x.get("variant") in va_by_name:
                x["variant"] = va_by_name[x["variant"]]
            if x.get("fields"):
                x["fields"] = [fa_by_name.get(f, f) for f in x["fields"]]
        if x.get("fact") == "adt":
            for v in x.get("variants", []):
                if v.get("name") in va_by_name:
                    v["name"] = va_by_name[v["name"]]
                for f in v.get("fields", []):
                    if f.get("name") in fa_by_name:
                        f["name"] = fa_by_name[f["name"]]
        for v in x.values():
            _walk_members(v, va_by_name, fa_by_name)
    elif isinstance(x, list):
        for v in x:
            _walk_members(v, va_by_name, fa_by_name)


def load_snapshot():
    try:
        with open(SNAPSHOT) as fh:
            return json.load(fh)
    except (OSError, ValueError):
        return None


def normalise(texts, lib_key="divan"):
    """texts: {file name: JSON text of a fact file}. Returns ({file name: parsed data}, report) with renamed items of the
    library crate mapped back to their snapshot names in every file."""
    snap = load_snapshot()
    report = {"modules": {}, "types": {}, "variants": {}, "fields": {}, "fns": {}}
    parsed = {f: json.loads(t) for f, t in texts.items()}
    if snap is None or os.environ.get("VERIF_NO_RENAME"):
        return parsed, report
    lib = [f for f, d in parsed.items() if d["crate"] == lib_key and not d.get("test")]
    if len(lib) != 1:
        return parsed, report
    cur = summarise(parsed[lib[0]])
    # 0. modules renamed / moved as a whole
    ma = module_aliases(snap, cur)
    if ma:
        for f in texts:
            t = texts[f]
            for n, o in sorted(ma.items(), key=lambda kv: -len(kv[0])):
                t = re.sub(r"(?<![%s:])%s::" % (_ID, re.escape(n)), (o + "::").replace("\\", "\\\\"), t)
            texts[f] = t
        parsed = {f: json.loads(t) for f, t in texts.items()}
        cur = summarise(parsed[lib[0]])
        report["modules"] = ma
    # 1. types (to a fixed point: the shape of one renamed type may mention another)
    for _round in range(4):
        ta = type_aliases(snap, cur)
        if not ta:
            break
        for f in texts:
            t = texts[f]
            for n, o in ta.items():
                t = _sub_ident(t, n, o)
            texts[f] = t
        parsed = {f: json.loads(t) for f, t in texts.items()}
        cur = summarise(parsed[lib[0]])
        report["types"].update(ta)
    # 2. variants and fields (structural; a new name is only mapped when no other ADT uses it as a member name)
    va, fa = member_aliases(snap, cur)
    used_v, used_f = {}, {}
    for p, a in cur["adts"].items():
        for v in a["variants"]:
            used_v.setdefault(v["name"], set()).add(p)
            for n_, _ in v["fields"]:
                used_f.setdefault(n_, set()).add(p)
    va_by_name = {n: o for (p, n), o in va.items() if used_v.get(n, set()) <= {p}}
    fa_by_name = {}
    for (p, i, n), o in fa.items():
        if used_f.get(n, set()) <= {p} and fa_by_name.get(n, o) == o:
            fa_by_name[n] = o
    if va_by_name or fa_by_name:
        for d in parsed.values():
            _walk_members(d, va_by_name, fa_by_name)
        # variant names also occur inside paths (`Enum::Variant` constructors, consts): textual for those
        if va_by_name:
            texts = {f: json.dumps(d) for f, d in parsed.items()}
            for (p, n), o in va.items():
                if n in va_by_name:
                    for f in texts:
                        texts[f] = _sub_ident(texts[f], p + "::" + n, p + "::" + o)
            parsed = {f: json.loads(t) for f, t in texts.items()}
        cur = summarise(parsed[lib[0]])
        report["variants"] = {"%s::%s" % k: v for k, v in va.items() if k[1] in va_by_name}
        report["fields"] = {"%s#%d.%s" % k: v for k, v in fa.items() if k[2] in fa_by_name}
    # 3. functions
    fna = fn_aliases(snap, cur)
    if fna:
        texts = {f: json.dumps(d) for f, d in parsed.items()}
        for n, o in sorted(fna.items(), key=lambda kv: -len(kv[0])):
            for f in texts:
                texts[f] = _apply_fn_alias(texts[f], n, o)
        parsed = {f: json.loads(t) for f, t in texts.items()}
        report["fns"] = fna
    return parsed, report
