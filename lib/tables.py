"""P6 helpers: finite decision tables read off `switchInt`-on-discriminant functions."""
from .facts import const_int, const_signed, norm


def discr_switches(b, local=None):
    """Switches whose operand is `discriminant(local)` (any local if None): [(bb, term, local)]."""
    out = []
    for bi, t in b.switches():
        d = t["discr"]
        if d["k"] not in ("copy", "move") or d["p"]["proj"]:
            continue
        defs = b.prov.defs.get(d["p"]["l"], [])
        for kind, dbi, si, s in defs:
            if kind == "S" and s["rv"]["k"] == "discr":
                base = s["rv"]["p"]["l"]
                if local is None or base == local:
                    out.append((bi, t, base))
    return out


def arm_targets(t):
    arms = {int(a[0]): a[1] for a in t["arms"]}
    return arms, t["otherwise"]


def exclusive_blocks(b, target, other_targets, stop=()):
    """Blocks reachable from `target` that are not reachable from any other arm target.
    `stop`: blocks that end the search (e.g. a loop header, to stay within one iteration)."""
    mine = b.reach([target], avoid=stop)
    others = set()
    for o in other_targets:
        if o != target:
            others |= b.reach([o], avoid=stop)
    return mine - others


def return_values_per_arm(b, sw_bb, t):
    """For `match x { A => v1, B => v2 }` returning constants/variants/bools: {discr_value: set(labels)} where a
    label is ("const", int) | ("variant", name) | ("expr", text)."""
    arms, otherwise = arm_targets(t)
    targets = list(arms.values()) + [otherwise]
    out = {}
    items = list(arms.items())
    if b.blocks[otherwise]["term"]["k"] != "unreachable":
        items.append(("otherwise", otherwise))
    for val, tgt in items:
        blocks = exclusive_blocks(b, tgt, targets)
        vals = set()
        for x in blocks:
            for s in b.blocks[x]["stmts"]:
                if s["k"] == "assign" and s["p"]["l"] == 0 and not s["p"]["proj"]:
                    vals.add(rv_label(b, s["rv"]))
        out[val] = vals
    return out


def rv_label(b, rv):
    k = rv["k"]
    if k == "use":
        o = rv["o"]
        if o["k"] == "const":
            v = const_signed(o)
            if v is not None:
                return ("const", v)
            return ("constexpr", o["c"]["d"])
        return ("place", o["p"]["l"], tuple(pr.get("i") for pr in o["p"]["proj"] if pr["k"] == "field"))
    if k == "agg" and rv["ak"] == "adt":
        return ("variant", rv["variant"])
    return ("expr", k)


def variant_names(prog, adt_suffix, crate="divan"):
    adt = prog.adt(adt_suffix, crate)
    if adt is None:
        return None
    return [v["name"] for v in adt["variants"]]


def const_array_elems(body):
    """Elements of a const/array initialiser assigned to _0: list of labels (variant name, const int, or None)."""
    agg = {}
    arr = None
    for bi, si, s in body.stmts(live_only=False):
        if s["k"] != "assign":
            continue
        rv = s["rv"]
        if not s["p"]["proj"]:
            if rv["k"] == "agg" and rv["ak"] == "adt":
                agg[s["p"]["l"]] = ("variant", rv["variant"])
            elif rv["k"] == "use" and rv["o"]["k"] == "const":
                v = const_signed(rv["o"])
                agg[s["p"]["l"]] = ("const", v) if v is not None else ("constexpr", rv["o"]["c"]["d"])
        if rv["k"] == "agg" and rv["ak"] == "array" and s["p"]["l"] == 0:
            arr = rv["ops"]
    if arr is None:
        return None
    out = []
    for o in arr:
        if o["k"] in ("copy", "move") and not o["p"]["proj"]:
            out.append(agg.get(o["p"]["l"]))
        elif o["k"] == "const":
            v = const_signed(o)
            out.append(("const", v) if v is not None else ("constexpr", o["c"]["d"]))
        else:
            out.append(None)
    return out


def switch_on_call_result(b, call):
    """The switch on `discriminant(<dest of call>)` (the dest local itself, possibly through whole-local moves):
    (bb, term) or None."""
    dest = call.dest["l"]
    aliases = {dest}
    changed = True
    while changed:
        changed = False
        for bi, si, s in b.stmts():
            if s["k"] == "assign" and not s["p"]["proj"] and s["rv"]["k"] == "use" and s["rv"]["o"]["k"] in ("copy", "move") \
                    and not s["rv"]["o"]["p"]["proj"] and s["rv"]["o"]["p"]["l"] in aliases and s["p"]["l"] not in aliases \
                    and len(b.prov.defs.get(s["p"]["l"], [])) == 1:
                aliases.add(s["p"]["l"])
                changed = True
    out = []
    for bi, t, base in discr_switches(b):
        if base in aliases:
            # discriminant of the local itself, not of one of its fields
            defs = [d for d in b.prov.defs.get(t["discr"]["p"]["l"], []) if d[0] == "S" and d[3]["rv"]["k"] == "discr"]
            if defs and not defs[0][3]["rv"]["p"]["proj"]:
                out.append((bi, t))
    return out[0] if len(out) == 1 else None
