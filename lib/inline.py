"""MIR-level inlining of crate-local helper functions (on the exported JSON), so that rules see through helpers they do
not know by name.

A behaviour-preserving "extract function" refactor moves statements of a function the rules analyse into a new local
function; without inlining every path/provenance rule anchored in the old function sees an opaque call instead. With
`Program.enable_inlining(keep)` every body is replaced by a copy in which calls to crate-local `fn` items are spliced in
(callee locals renumbered, argument assignments at the call site, `return` replaced by an assignment to the destination
and a jump to the continuation) - except callees the rules know by name (`keep(name)` true): those stay calls, exactly as
before. The callee bodies themselves remain in the program as well, so rules that iterate all bodies still check them.

Bounds: depth <= 3, callee <= 150 blocks, no recursion; diverging calls (no return target) are left alone.
"""
import copy

from .facts import Body, norm

MAX_DEPTH = 3
MAX_BLOCKS = 150


def _ren(x, off):
    """Deep copy with every local index shifted by `off` (places and index projections)."""
    if isinstance(x, dict):
        if "l" in x and "proj" in x:
            y = {k: v for k, v in x.items() if k not in ("l", "proj")}
            y["l"] = x["l"] + off
            y["proj"] = [_ren(p, off) for p in x["proj"]]
            return y
        if x.get("k") == "index" and "l" in x:
            y = dict(x)
            y["l"] = x["l"] + off
            return y
        return {k: _ren(v, off) for k, v in x.items()}
    if isinstance(x, list):
        return [_ren(v, off) for v in x]
    return x


def _retarget(t, base, cont, unwind_to, dest, ret_local, span, tag):
    """Terminator of a callee block, moved into the caller: block indices shifted by `base`; `return` becomes
    (assign dest = move ret_local; goto cont) - returned as (extra_stmts, new_terminator)."""
    k = t["k"]
    extra = []
    if k == "return":
        extra.append({"k": "assign", "p": copy.deepcopy(dest), "rv": {"k": "use", "o": {"k": "move", "p": {"l": ret_local, "proj": [], "ty": dest.get("ty", "")}}},
                      "span": span, "inl": tag})
        return extra, {"k": "goto", "t": cont}
    if k == "resume":
        if isinstance(unwind_to, int):
            return extra, {"k": "goto", "t": unwind_to}
        return extra, {"k": "resume"}
    n = dict(t)
    if k == "goto":
        n["t"] = t["t"] + base
    elif k == "switch":
        n["arms"] = [[a[0], a[1] + base] for a in t["arms"]]
        n["otherwise"] = t["otherwise"] + base
    elif k in ("call", "drop", "assert"):
        if isinstance(t.get("t"), int):
            n["t"] = t["t"] + base
        if isinstance(t.get("unwind"), int):
            n["unwind"] = t["unwind"] + base
    elif k == "asm":
        n["ts"] = [x + base for x in t["ts"]]
        if isinstance(t.get("unwind"), int):
            n["unwind"] = t["unwind"] + base
    return extra, n


def inline_body(prog, body, keep):
    """A new Body with eligible local calls inlined, or `body` itself when nothing was inlined."""
    raw = None
    blocks = body.blocks
    chain = {}          # block index -> tuple of callee names this block was inlined from
    inlined = []
    i = 0
    while i < len(blocks):
        t = blocks[i]["term"]
        if t["k"] == "call" and isinstance(t.get("t"), int) and (t.get("resolved") or t.get("callee")):
            name = norm(t.get("resolved") or t.get("callee"))
            ch = chain.get(i, ())
            C = prog._orig_bodies.get((body.crate, name, -1)) if t.get("ck") in (None, body.crate.split(".")[0]) or True else None
            ok = C is not None and C.kind in ("Fn", "AssocFn") and C is not prog._orig_bodies.get((body.crate, body.path, -1)) and name not in ch and \
                len(ch) < MAX_DEPTH and len(C.blocks) <= MAX_BLOCKS and len(t["args"]) == C.arg_count and not keep(name) and \
                "::tests::" not in name and "::benches::" not in name
            if ok:
                if raw is None:
                    raw = dict(body.raw)
                    raw["locals"] = list(body.raw["locals"])
                    raw["debug"] = list(body.raw["debug"])
                    raw["blocks"] = [dict(b, stmts=list(b["stmts"])) for b in body.raw["blocks"]]
                    blocks = raw["blocks"]
                    t = blocks[i]["term"]
                off = len(raw["locals"])
                base = len(blocks)
                raw["locals"].extend(copy.deepcopy(C.locals))
                short = name.rsplit("::", 1)[-1]
                for e in C.raw["debug"]:
                    raw["debug"].append({"name": "%s@%s" % (e["name"], short), "p": _ren(e["p"], off)})
                tag = name
                # arguments
                for k_, a in enumerate(t["args"]):
                    blocks[i]["stmts"].append({"k": "assign", "p": {"l": off + k_ + 1, "proj": [], "ty": C.locals[k_ + 1]["ty"]},
                                               "rv": {"k": "use", "o": copy.deepcopy(a)}, "span": t["span"], "inl": tag})
                cont, unwind_to, dest, span = t["t"], t.get("unwind"), t["dest"], t["span"]
                blocks[i]["term"] = {"k": "goto", "t": base, "inl_call": tag, "span": span}
                for j, cb in enumerate(C.blocks):
                    nb = {"cleanup": cb.get("cleanup", False), "stmts": [_ren(s, off) for s in cb["stmts"]], "tspan": cb.get("tspan"), "inl": tag}
                    for s in nb["stmts"]:
                        s.setdefault("inl", tag)
                    extra, nt = _retarget(_ren(cb["term"], off), base, cont, unwind_to, dest, off, span, tag)
                    nb["stmts"].extend(extra)
                    nb["term"] = nt
                    blocks.append(nb)
                    chain[base + j] = ch + (name,)
                inlined.append(name)
        i += 1
    if raw is None:
        return body
    nb = Body(prog, raw)
    nb.crate = body.crate
    nb.path = body.path
    nb.inlined = inlined
    return nb


def enable(prog, keep):
    """Replace every non-promoted body of the program by its inlined version (idempotent)."""
    if getattr(prog, "_orig_bodies", None) is not None:
        return 0
    prog._orig_bodies = dict(prog.bodies)
    n = 0
    for key, b in list(prog._orig_bodies.items()):
        if key[2] >= 0:
            continue
        nb = inline_body(prog, b, keep)
        if nb is not b:
            prog.bodies[key] = nb
            n += 1
    prog._children = None
    # helpers that now only exist as copies inside their callers: every call of them was spliced in and nothing takes
    # them as a function value. Who-may-do-what rules attribute their statements to the callers, not to the helper.
    names = {(k[0], nm) for k, b in prog.bodies.items() if k[2] < 0 for nm in getattr(b, "inlined", ())}
    still = set()
    for k, b in prog.bodies.items():
        if k[2] >= 0:
            continue
        for bl in b.blocks:
            t = bl["term"]
            if t["k"] == "call" and (t.get("resolved") or t.get("callee")):
                still.add((k[0], norm(t.get("resolved") or t.get("callee"))))
            for s in bl["stmts"]:
                txt = None
                rv = s.get("rv", {})
                for o in ([rv.get("o")] if rv.get("k") in ("use", "cast") else rv.get("ops", []) if rv.get("k") == "agg" else []):
                    if o and o.get("k") == "const" and o["c"].get("fn"):
                        still.add((k[0], norm(o["c"]["fn"])))
            if t["k"] == "call":
                for a in t["args"]:
                    if a.get("k") == "const" and a["c"].get("fn"):
                        still.add((k[0], norm(a["c"]["fn"])))
    prog._absorbed = names - still
    return n


def absorbed(prog, body):
    """True when `body` is a helper that lib.inline spliced into every one of its callers (and nothing uses it as a value)."""
    return (body.crate, body.path) in getattr(prog, "_absorbed", ())
