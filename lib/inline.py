"""MIR-level inlining of crate-local helper functions (on the exported JSON), so that rules see through helpers they do
not know by name.

A behaviour-preserving "extract function" refactor moves statements of a function the rules analyse into a new local
function; without inlining every path/provenance rule anchored in the old function sees an opaque call instead. With
`Program.enable_inlining(keep)` every body is replaced by a copy in which calls to crate-local `fn` items are spliced in
(callee locals renumbered, argument assignments at the call site, `return` replaced by an assignment to the destination
and a jump to the continuation) - except callees the rules know by name (`keep(name)` true): those stay calls, exactly as
before. The callee bodies themselves remain in the program as well, so rules that iterate all bodies still check them.

Bounds: depth <= 3, callee <= 150 blocks, no recursion; diverging calls (no return target) are left alone.
"""
import copy

from .facts import Body, norm

MAX_DEPTH = 3
MAX_BLOCKS = 150


def _ren(x, off):
    """Deep copy with every local index shifted by `off` (places and index projections)."""
    if isinstance(x, dict):
        if "l" in x and "proj" in x:
            y = {k: v for k, v in x.items() if k not in ("l", "proj")}
            y["l"] = x["l"] + off
            y["proj"] = [_ren(p, off) for p in x["proj"]]
            return y
        if x.get("k") == "index" and "l" in x:
            y = dict(x)
            y["l"] = x["l"] + off
            return y
        return {k: _ren(v, off) for k, v in x.items()}
    if isinstance(x, list):
        return [_ren(v, off) for v in x]
    return x


def _retarget(t, base, cont, unwind_to, dest, ret_local, span, tag):
    """Terminator of a callee block, moved into the caller: block indices shifted by `base`; `return` becomes
    (assign dest = move ret_local; goto cont) - returned as (extra_stmts, new_terminator)."""
    k = t["k"]
    extra = []
    if k == "return":
        extra.append({"k": "assign", "p": copy.deepcopy(dest), "rv": {"k": "use", "o": {"k": "move", "p": {"l": ret_local, "proj": [], "ty": dest.get("ty", "")}}},
                      "span": span, "inl": tag})
        return extra, {"k": "goto", "t": cont}
    if k == "resume":
        if isinstance(unwind_to, int):
            return extra, {"k": "goto", "t": unwind_to}
        return extra, {"k": "resume"}
    n = dict(t)
    if k == "goto":
        n["t"] = t["t"] + base
    elif k == "switch":
        n["arms"] = [[a[0], a[1] + base] for a in t["arms"]]
        n["otherwise"] = t["otherwise"] + base
    elif k in ("call", "drop", "assert"):
        if isinstance(t.get("t"), int):
            n["t"] = t["t"] + base
        if isinstance(t.get("unwind"), int):
            n["unwind"] = t["unwind"] + base
    elif k == "asm":
        n["ts"] = [x + base for x in t["ts"]]
        if isinstance(t.get("unwind"), int):
            n["unwind"] = t["unwind"] + base
    return extra, n


THEN = ("core::bool::then", "core::bool::then_some", "std::bool::then", "std::bool::then_some")


def _closure_def(blocks, local, depth=6):
    """Def path of the closure the local `local` holds (or refers to): it is assigned exactly once - by a closure
    aggregate, or by a move/copy/borrow of a local for which the same holds."""
    found = None
    n = 0
    for bl in blocks:
        for s in bl["stmts"]:
            if s["k"] == "assign" and s["p"]["l"] == local and not s["p"]["proj"]:
                n += 1
                rv = s["rv"]
                if rv["k"] == "agg" and rv.get("ak") == "closure":
                    found = norm(rv["def"])
                elif rv["k"] == "use" and rv["o"].get("k") in ("move", "copy") and not rv["o"]["p"]["proj"] and depth > 0:
                    found = _closure_def(blocks, rv["o"]["p"]["l"], depth - 1)
                elif rv["k"] == "ref" and not rv["p"]["proj"] and depth > 0:
                    found = _closure_def(blocks, rv["p"]["l"], depth - 1)
                else:
                    return None
        t = bl["term"]
        if t["k"] == "call" and t.get("dest") and t["dest"]["l"] == local and not t["dest"]["proj"]:
            return None
    return found if n == 1 else None


FN_CALLS = ("std::ops::FnOnce::call_once", "std::ops::Fn::call", "std::ops::FnMut::call_mut")


def _grouping_closure(blocks, C, cdef):
    """A local closure that only groups calls of the enclosing function's generic callables - `let init_input = |slot| {
    slot.write(gen_input()); count_input(..) }` called from both arms of a match instead of the statements written out
    twice: (i) its body calls, through an Fn* trait, a value of a generic type it captured, and (ii) in the enclosing
    function the closure value is used for nothing but being called (borrowed and passed as the callee of Fn*::call*)."""
    generic_call = False
    for bl in C.blocks:
        t = bl["term"]
        if t["k"] == "call" and norm(t.get("callee") or "") in FN_CALLS and not (t.get("resolved") and "{closure#" in t["resolved"]) and t.get("gargs"):
            g0 = t["gargs"][0]
            if g0.startswith("impl ") or (len(g0) <= 6 and g0[:1].isupper() and g0.isidentifier()):
                generic_call = True
    if not generic_call:
        return False
    holders = set()
    for bl in blocks:
        for s_ in bl["stmts"]:
            if s_["k"] == "assign" and s_["rv"]["k"] == "agg" and s_["rv"].get("ak") == "closure" and norm(s_["rv"]["def"]) == cdef and not s_["p"]["proj"]:
                holders.add(s_["p"]["l"])
    if len(holders) != 1:
        return False
    refs = set()
    changed = True
    while changed:
        changed = False
        for bl in blocks:
            for s_ in bl["stmts"]:
                if s_["k"] != "assign" or s_["p"]["proj"]:
                    continue
                rv = s_["rv"]
                src = rv["p"]["l"] if rv["k"] == "ref" and not rv["p"]["proj"] else (
                    rv["o"]["p"]["l"] if rv["k"] == "use" and rv["o"].get("k") in ("move", "copy") and not rv["o"]["p"]["proj"] else None)
                if src in holders | refs and s_["p"]["l"] not in refs | holders:
                    refs.add(s_["p"]["l"])
                    changed = True
    vals = holders | refs

    def uses(x, acc):
        if isinstance(x, dict):
            if "l" in x and "proj" in x:
                if x["l"] in vals:
                    acc.append(x)
                return
            for v in x.values():
                uses(v, acc)
        elif isinstance(x, list):
            for v in x:
                uses(v, acc)
    for bl in blocks:
        for s_ in bl["stmts"]:
            if s_["k"] == "assign" and not s_["p"]["proj"] and s_["p"]["l"] in vals:
                continue        # the definitions collected above
            acc = []
            uses(s_, acc)
            if acc and s_["k"] not in ("storagelive", "storagedead", "nop"):
                return False
        t = bl["term"]
        if t["k"] == "call" and norm(t.get("callee") or "") in FN_CALLS:
            acc = []
            uses(t["args"][1:], acc)
            uses(t.get("dest"), acc)
            if acc:
                return False
        elif t["k"] == "drop":
            continue
        else:
            acc = []
            uses({k_: v_ for k_, v_ in t.items() if k_ not in ("span",)}, acc)
            if acc:
                return False
    return True


def _splice_closure_call(prog, body, raw, blocks, i, t, chain):
    """A call, inside code spliced in from a helper, of a callable parameter that is - in this very function - a closure
    built here (`helper(|x| ..)` with `fn helper(f: impl FnOnce(X))`): the closure's body is spliced in at the call.
    Returns the closure's name, or None when the call is left alone."""
    if len(t["args"]) != 2 or not isinstance(t.get("t"), int):
        return None
    recv, tup = t["args"]
    if recv.get("k") not in ("move", "copy") or recv["p"]["proj"]:
        return None
    cdef = _closure_def(blocks, recv["p"]["l"])
    C = prog._orig_bodies.get((body.crate, cdef, -1)) if cdef else None
    ch = chain.get(i, ())
    if C is None or C.kind != "Closure" or len(C.blocks) > MAX_BLOCKS or cdef in ch or len(ch) >= MAX_DEPTH + 1:
        return None
    # only a closure handed INTO the helper (built outside the spliced region that calls it): a closure the helper builds
    # and calls itself is the helper's own structure, which the rules see as they do in any function - unless it is a mere
    # grouping of calls of the caller's own generic callables (see _grouping_closure)
    built_in = [bl.get("inl") for bl in blocks for s_ in bl["stmts"]
                if s_["k"] == "assign" and s_["rv"]["k"] == "agg" and s_["rv"].get("ak") == "closure" and norm(s_["rv"]["def"]) == cdef]
    if len(built_in) != 1:
        return None
    if built_in[0] == blocks[i].get("inl"):
        memo = raw.setdefault("_grouping", {})      # decided once, on the code as written (before any call site is spliced)
        if cdef not in memo:
            memo[cdef] = _grouping_closure(blocks, C, cdef)
        if not memo[cdef]:
            return None
    nparams = C.arg_count - 1
    if nparams and (tup.get("k") not in ("move", "copy") or tup["p"]["proj"]):
        return None
    span, dest, cont, unwind_to = t["span"], t["dest"], t["t"], t.get("unwind")
    off = len(raw["locals"])
    raw["locals"].extend(copy.deepcopy(C.locals))
    short = cdef.rsplit("::", 1)[-1]
    for e in C.raw["debug"]:
        raw["debug"].append({"name": "%s@%s" % (e["name"], short), "p": _ren(e["p"], off)})
    tag = cdef
    env_ty = C.locals[1]["ty"]
    recv_ty = recv["p"].get("ty") or ""
    cl_place = copy.deepcopy(recv["p"])
    if recv_ty.startswith("&") or not env_ty.startswith("&"):
        env_rv = {"k": "use", "o": {"k": recv["k"], "p": cl_place}}       # reference handed on / closure by value
    else:
        env_rv = {"k": "ref", "mut": env_ty.startswith("&mut "), "p": cl_place}
    st = blocks[i]["stmts"]
    st.append({"k": "assign", "p": {"l": off + 1, "proj": [], "ty": env_ty}, "rv": env_rv, "span": span, "inl": tag})
    for k_ in range(nparams):
        ty_k = C.locals[k_ + 2]["ty"]
        src = {"l": tup["p"]["l"], "proj": [{"k": "field", "i": k_, "name": None}], "ty": ty_k}
        st.append({"k": "assign", "p": {"l": off + k_ + 2, "proj": [], "ty": ty_k}, "rv": {"k": "use", "o": {"k": "move", "p": src}}, "span": span, "inl": tag})
    base = len(blocks)
    blocks[i]["term"] = {"k": "goto", "t": base, "inl_call": tag, "span": span}
    for j, cb in enumerate(C.blocks):
        nb = {"cleanup": cb.get("cleanup", False), "stmts": [_ren(s_, off) for s_ in cb["stmts"]], "tspan": cb.get("tspan"), "inl": tag}
        for s_ in nb["stmts"]:
            s_.setdefault("inl", tag)
        extra, nt = _retarget(_ren(cb["term"], off), base, cont, unwind_to, dest, off, span, tag)
        nb["stmts"].extend(extra)
        nb["term"] = nt
        blocks.append(nb)
        chain[base + j] = ch + (cdef,)
    return cdef


def _opt(variant, ops):
    return {"k": "agg", "ak": "adt", "adt": "std::option::Option", "active": None, "variant": variant, "vi": 1 if variant == "Some" else 0,
            "discr": "1" if variant == "Some" else "0", "fields": ["0"] if variant == "Some" else [], "ops": ops}


def _expand_then(prog, body, raw, blocks, i, t, name, chain):
    """`c.then(|| e)` / `c.then_some(v)` spelled out as `if c { Some(e) } else { None }`, the closure's body spliced in
    (it is built in this very function and called here or never). Returns the spliced closure's name, "" for then_some,
    None when the call is left alone."""
    if len(t["args"]) != 2:
        return None
    cond, second = t["args"]
    span, dest, cont, unwind_to = t["span"], t["dest"], t["t"], t.get("unwind")
    tag = name
    n0 = len(blocks)
    if name.endswith("then_some"):
        # block n0: Some(v), block n0+1: None
        blocks[i]["term"] = {"k": "switch", "discr": copy.deepcopy(cond), "arms": [["0", n0 + 1]], "otherwise": n0, "span": span, "inl_call": tag}
        blocks.append({"cleanup": False, "stmts": [{"k": "assign", "p": copy.deepcopy(dest), "rv": _opt("Some", [copy.deepcopy(second)]), "span": span, "inl": tag}],
                       "term": {"k": "goto", "t": cont}, "inl": tag})
        blocks.append({"cleanup": False, "stmts": [{"k": "assign", "p": copy.deepcopy(dest), "rv": _opt("None", []), "span": span, "inl": tag}],
                       "term": {"k": "goto", "t": cont}, "inl": tag})
        chain[n0] = chain[n0 + 1] = chain.get(i, ())
        return ""
    if second.get("k") not in ("move", "copy") or second["p"]["proj"]:
        return None
    cdef = _closure_def(blocks, second["p"]["l"])
    C = prog._orig_bodies.get((body.crate, cdef, -1)) if cdef else None
    ch = chain.get(i, ())
    if C is None or C.kind != "Closure" or C.arg_count != 1 or len(C.blocks) > MAX_BLOCKS or cdef in ch or len(ch) >= MAX_DEPTH:
        return None
    off = len(raw["locals"])
    raw["locals"].extend(copy.deepcopy(C.locals))
    short = cdef.rsplit("::", 1)[-1]
    for e in C.raw["debug"]:
        raw["debug"].append({"name": "%s@%s" % (e["name"], short), "p": _ren(e["p"], off)})
    tag = cdef
    env_ty = C.locals[1]["ty"]
    cl_place = copy.deepcopy(second["p"])
    if env_ty.startswith("&mut "):
        env_rv = {"k": "ref", "mut": True, "p": cl_place}
    elif env_ty.startswith("&"):
        env_rv = {"k": "ref", "mut": False, "p": cl_place}
    else:
        env_rv = {"k": "use", "o": {"k": "move", "p": cl_place}}
    # n0: enter (environment), n0+1: Some(result), n0+2: None, n0+3..: the closure's blocks
    base = n0 + 3
    blocks[i]["term"] = {"k": "switch", "discr": copy.deepcopy(cond), "arms": [["0", n0 + 2]], "otherwise": n0, "span": span, "inl_call": tag}
    blocks.append({"cleanup": False, "stmts": [{"k": "assign", "p": {"l": off + 1, "proj": [], "ty": env_ty}, "rv": env_rv, "span": span, "inl": tag}],
                   "term": {"k": "goto", "t": base}, "inl": tag})
    res = {"l": off, "proj": [], "ty": C.locals[0]["ty"]}
    blocks.append({"cleanup": False, "stmts": [{"k": "assign", "p": copy.deepcopy(dest), "rv": _opt("Some", [{"k": "move", "p": dict(res)}]), "span": span, "inl": tag}],
                   "term": {"k": "goto", "t": cont}, "inl": tag})
    blocks.append({"cleanup": False, "stmts": [{"k": "assign", "p": copy.deepcopy(dest), "rv": _opt("None", []), "span": span, "inl": tag}],
                   "term": {"k": "goto", "t": cont}, "inl": tag})
    chain[n0] = chain[n0 + 1] = chain[n0 + 2] = ch
    for j, cb in enumerate(C.blocks):
        nb = {"cleanup": cb.get("cleanup", False), "stmts": [_ren(s_, off) for s_ in cb["stmts"]], "tspan": cb.get("tspan"), "inl": tag}
        for s_ in nb["stmts"]:
            s_.setdefault("inl", tag)
        tt = _ren(cb["term"], off)
        if tt["k"] == "return":
            nt = {"k": "goto", "t": n0 + 1}
        else:
            _extra, nt = _retarget(tt, base, n0 + 1, unwind_to, res, off, span, tag)
        nb["term"] = nt
        blocks.append(nb)
        chain[base + j] = ch + (cdef,)
    return cdef


# callees that stay calls whatever they are named, because the rules model them as units by what they do: a function
# that itself waits on a barrier is "a thread synchronisation step" of the sample recorder (rules/common.Recorder)
UNIT_CALLS = ("std::sync::Barrier::wait",)


def _unit_by_behaviour(C):
    return any(bl["term"]["k"] == "call" and norm(bl["term"].get("resolved") or bl["term"].get("callee") or "") in UNIT_CALLS for bl in C.blocks)


def inline_body(prog, body, keep):
    """A new Body with eligible local calls inlined, or `body` itself when nothing was inlined."""
    raw = None
    blocks = body.blocks
    chain = {}          # block index -> tuple of callee names this block was inlined from
    inlined = []
    spliced_closures = []   # closures whose body now lives in this function (bool::then spelled out)
    i = 0
    while i < len(blocks):
        t = blocks[i]["term"]
        if t["k"] == "call" and isinstance(t.get("t"), int) and (t.get("resolved") or t.get("callee")):
            name = norm(t.get("resolved") or t.get("callee"))
            ch = chain.get(i, ())
            if name in THEN and not blocks[i].get("cleanup"):
                if raw is None:
                    raw = dict(body.raw)
                    raw["locals"] = list(body.raw["locals"])
                    raw["debug"] = list(body.raw["debug"])
                    raw["blocks"] = [dict(b, stmts=list(b["stmts"])) for b in body.raw["blocks"]]
                    blocks = raw["blocks"]
                    t = blocks[i]["term"]
                got = _expand_then(prog, body, raw, blocks, i, t, name, chain)
                if got is not None:
                    inlined.append(got or name)
                    if got:
                        spliced_closures.append(got)
                    i += 1
                    continue
            if norm(t.get("callee") or "") in FN_CALLS and not blocks[i].get("cleanup"):
                if raw is None:
                    raw = dict(body.raw)
                    raw["locals"] = list(body.raw["locals"])
                    raw["debug"] = list(body.raw["debug"])
                    raw["blocks"] = [dict(b, stmts=list(b["stmts"])) for b in body.raw["blocks"]]
                    blocks = raw["blocks"]
                got = _splice_closure_call(prog, body, raw, blocks, i, blocks[i]["term"], chain)
                if got:
                    inlined.append(got)
                    spliced_closures.append(got)
                    i += 1
                    continue
            C = prog._orig_bodies.get((body.crate, name, -1)) if t.get("ck") in (None, body.crate.split(".")[0]) or True else None
            ok = C is not None and C.kind in ("Fn", "AssocFn") and C is not prog._orig_bodies.get((body.crate, body.path, -1)) and name not in ch and \
                len(ch) < MAX_DEPTH and len(C.blocks) <= MAX_BLOCKS and len(t["args"]) == C.arg_count and not keep(name) and not _unit_by_behaviour(C) and \
                "::tests::" not in name and "::benches::" not in name
            if ok:
                if raw is None:
                    raw = dict(body.raw)
                    raw["locals"] = list(body.raw["locals"])
                    raw["debug"] = list(body.raw["debug"])
                    raw["blocks"] = [dict(b, stmts=list(b["stmts"])) for b in body.raw["blocks"]]
                    blocks = raw["blocks"]
                    t = blocks[i]["term"]
                off = len(raw["locals"])
                base = len(blocks)
                raw["locals"].extend(copy.deepcopy(C.locals))
                short = name.rsplit("::", 1)[-1]
                for e in C.raw["debug"]:
                    raw["debug"].append({"name": "%s@%s" % (e["name"], short), "p": _ren(e["p"], off)})
                tag = name
                # arguments
                for k_, a in enumerate(t["args"]):
                    blocks[i]["stmts"].append({"k": "assign", "p": {"l": off + k_ + 1, "proj": [], "ty": C.locals[k_ + 1]["ty"]},
                                               "rv": {"k": "use", "o": copy.deepcopy(a)}, "span": t["span"], "inl": tag})
                cont, unwind_to, dest, span = t["t"], t.get("unwind"), t["dest"], t["span"]
                blocks[i]["term"] = {"k": "goto", "t": base, "inl_call": tag, "span": span}
                for j, cb in enumerate(C.blocks):
                    nb = {"cleanup": cb.get("cleanup", False), "stmts": [_ren(s, off) for s in cb["stmts"]], "tspan": cb.get("tspan"), "inl": tag}
                    for s in nb["stmts"]:
                        s.setdefault("inl", tag)
                    extra, nt = _retarget(_ren(cb["term"], off), base, cont, unwind_to, dest, off, span, tag)
                    nb["stmts"].extend(extra)
                    nb["term"] = nt
                    blocks.append(nb)
                    chain[base + j] = ch + (name,)
                inlined.append(name)
        i += 1
    if raw is None:
        return body
    for j, ch_ in chain.items():
        if ch_ and j < len(blocks):
            blocks[j]["inl_chain"] = list(ch_)
    nb = Body(prog, raw)
    nb.crate = body.crate
    nb.path = body.path
    nb.inlined = inlined
    nb.spliced_closures = spliced_closures
    return nb


def enable(prog, keep):
    """Replace every non-promoted body of the program by its inlined version (idempotent)."""
    if getattr(prog, "_orig_bodies", None) is not None:
        return 0
    prog._orig_bodies = dict(prog.bodies)
    n = 0
    for key, b in list(prog._orig_bodies.items()):
        if key[2] >= 0:
            continue
        nb = inline_body(prog, b, keep)
        if nb is not b:
            prog.bodies[key] = nb
            n += 1
    prog._children = None
    # helpers that now only exist as copies inside their callers: every call of them was spliced in and nothing takes
    # them as a function value. Who-may-do-what rules attribute their statements to the callers, not to the helper.
    names = {(k[0], nm) for k, b in prog.bodies.items() if k[2] < 0 for nm in getattr(b, "inlined", ())}
    still = set()
    for k, b in prog.bodies.items():
        if k[2] >= 0:
            continue
        for bl in b.blocks:
            t = bl["term"]
            if t["k"] == "call" and (t.get("resolved") or t.get("callee")):
                still.add((k[0], norm(t.get("resolved") or t.get("callee"))))
            for s in bl["stmts"]:
                txt = None
                rv = s.get("rv", {})
                for o in ([rv.get("o")] if rv.get("k") in ("use", "cast") else rv.get("ops", []) if rv.get("k") == "agg" else []):
                    if o and o.get("k") == "const" and o["c"].get("fn"):
                        still.add((k[0], norm(o["c"]["fn"])))
            if t["k"] == "call":
                for a in t["args"]:
                    if a.get("k") == "const" and a["c"].get("fn"):
                        still.add((k[0], norm(a["c"]["fn"])))
    prog._absorbed = names - still
    return n


def absorbed(prog, body):
    """True when `body` is a helper that lib.inline spliced into every one of its callers (and nothing uses it as a value)."""
    return (body.crate, body.path) in getattr(prog, "_absorbed", ())
