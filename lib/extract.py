"""E1 harness: run the mirfacts driver over /repo's *current working tree* and cache the
fact files under /verif/.cache/<tree-hash>/<config>/.

The cache key is the content hash of every source file cargo would read, so any edit to
/repo forces a new extraction; nothing is ever analysed from a stale tree.  The cargo
target dir holding the *dependencies'* metadata is reused between runs, but the
fingerprints of the workspace members are deleted before every run and the harness
asserts that a fresh fact file was written by this very run (cargo's freshness cache
would otherwise silently skip the wrapper).
"""
import fcntl
import glob
import hashlib
import json
import os
import shutil
import subprocess
import sys
import time

VERIF = os.path.dirname(os.path.dirname(os.path.abspath(__file__)))
REPO = os.environ.get("VERIF_REPO", "/repo")
CACHE = os.environ.get("VERIF_CACHE", os.path.join(VERIF, ".cache"))
DRIVER = os.path.join(VERIF, "driver", "target", "release", "mirfacts")

WORKSPACE_CRATES = ["divan", "divan_macros", "examples", "internal_benches"]

# name -> (cargo args, extra RUSTFLAGS, crates to export)
CONFIGS = {
    # default features, dev profile: overflow/bounds/div Assert terminators present
    "K1": (["-p", "divan", "--lib"], "", "divan"),
    # release-shaped MIR: no debug assertions, no overflow checks
    "K2": (["-p", "divan", "--lib"], "-C debug-assertions=off -C overflow-checks=off", "divan"),
    # everything the build covers: cfg(test) lib, integration tests, examples, internal benches
    "K3": (["--workspace", "--all-targets", "--features", "divan/internal_benches"], "",
           "divan,examples,internal_benches,attr_options,entry_properties,forbid_unsafe,weird_usage,"
           "atomic,collections,hash,image,math,memcpy,panic,scratch,search,sort,string,threads,time,internals"),
    # the dyn_thread_local feature
    "K4": (["-p", "divan", "--lib", "--features", "dyn_thread_local"], "", "divan"),
}


class AnalysisError(Exception):
    pass


def tree_hash(repo=None):
    repo = repo or REPO
    h = hashlib.sha256()
    files = []
    for root, dirs, fs in os.walk(repo):
        dirs[:] = sorted(d for d in dirs if d not in ("target", ".git"))
        for f in sorted(fs):
            if f.endswith(".rs") or f in ("Cargo.toml", "Cargo.lock") or f.endswith(".md"):
                files.append(os.path.join(root, f))
    for p in files:
        h.update(os.path.relpath(p, repo).encode())
        h.update(b"\0")
        with open(p, "rb") as fh:
            h.update(fh.read())
        h.update(b"\0")
    # the driver is part of the key as well: a rebuilt extractor invalidates old facts
    try:
        with open(os.path.join(VERIF, "driver", "src", "main.rs"), "rb") as fh:
            h.update(fh.read())
    except OSError:
        pass
    return h.hexdigest()[:24]


def sysroot():
    return subprocess.check_output(["rustc", "+nightly", "--print", "sysroot"], text=True).strip()


def ensure_driver():
    src = os.path.join(VERIF, "driver", "src", "main.rs")
    if os.path.exists(DRIVER) and os.path.getmtime(DRIVER) >= os.path.getmtime(src):
        return
    env = dict(os.environ, CARGO_NET_OFFLINE="true")
    r = subprocess.run(["cargo", "build", "--release", "--offline"], cwd=os.path.join(VERIF, "driver"),
                       env=env, capture_output=True, text=True)
    if r.returncode != 0 or not os.path.exists(DRIVER):
        raise AnalysisError("driver build failed:\n" + r.stderr[-4000:])


def _run_cargo(cfg, outdir, tgt, repo):
    cargo_args, rustflags, crates = CONFIGS[cfg]
    env = dict(os.environ)
    env.update({
        "CARGO_NET_OFFLINE": "true",
        "LD_LIBRARY_PATH": sysroot() + "/lib" + (":" + env["LD_LIBRARY_PATH"] if env.get("LD_LIBRARY_PATH") else ""),
        "RUSTFLAGS": ("-Zmir-opt-level=0 -Awarnings " + rustflags).strip(),
        "RUSTC_WORKSPACE_WRAPPER": DRIVER,
        "CARGO_TARGET_DIR": tgt,
        "MIRFACTS_OUT": outdir,
        "MIRFACTS_CRATES": crates,
    })
    env.pop("RUSTC_WRAPPER", None)
    cmd = ["cargo", "+nightly", "check", "--offline"] + cargo_args
    return subprocess.run(cmd, cwd=repo, env=env, capture_output=True, text=True)


def invalidate_workspace(tgt, extra=()):
    """Delete the cargo fingerprints of the workspace members in a (shared) target dir.  Cargo hashes path packages
    relative to their workspace root, so two copies of the repository (a scratch copy with an edit, /repo itself) share
    artifact names in one target dir and freshness is then decided by mtimes - an edited copy whose files are older than
    the last build would silently reuse the other copy's artifacts (including the proc-macro dylib)."""
    names = list(WORKSPACE_CRATES) + list(extra)
    for prof in ("debug", "release"):
        for fp in glob.glob(os.path.join(tgt, prof, ".fingerprint", "*")):
            base = os.path.basename(fp)
            if any(base.startswith(c.replace("_", "-") + "-") or base.startswith(c + "-") for c in names):
                shutil.rmtree(fp, ignore_errors=True)


def extract(cfg, repo=None, verbose=True):
    """Return the directory with the fact files of configuration `cfg` for the current tree."""
    repo = repo or REPO
    th = tree_hash(repo)
    outdir = os.path.join(CACHE, "facts", th, cfg)
    done = os.path.join(outdir, "DONE")
    if os.path.exists(done):
        try:
            os.utime(os.path.join(CACHE, "facts", th))
        except OSError:
            pass
        return outdir
    os.makedirs(os.path.join(CACHE, "facts", th), exist_ok=True)
    # one extraction at a time per (cache, configuration): the cargo target dir of a configuration is shared by all trees
    lock = open(os.path.join(CACHE, "extract-" + cfg + ".lock"), "w")
    fcntl.flock(lock, fcntl.LOCK_EX)
    try:
        if os.path.exists(done):
            return outdir
        ensure_driver()
        t0 = time.time()
        shutil.rmtree(outdir, ignore_errors=True)
        os.makedirs(outdir)
        tgt = os.path.join(CACHE, "target", cfg)
        for attempt in (0, 1):
            # force the workspace members through the wrapper again
            invalidate_workspace(tgt)
            r = _run_cargo(cfg, outdir, tgt, repo)
            files = glob.glob(os.path.join(outdir, "*.json"))
            if r.returncode == 0 and files:
                break
            if attempt == 0:
                shutil.rmtree(tgt, ignore_errors=True)  # cold retry on a fresh target dir
                for f in files:
                    os.remove(f)
                continue
            raise AnalysisError("fact extraction failed for %s (exit %s, %d fact files):\n%s"
                                % (cfg, r.returncode, len(files), r.stderr[-6000:]))
        with open(done, "w") as fh:
            json.dump({"config": cfg, "tree": th, "files": sorted(os.path.basename(f) for f in files),
                       "wall_s": round(time.time() - t0, 2)}, fh)
        if verbose:
            print("[extract] %s: %d fact files in %.1fs (tree %s)" % (cfg, len(files), time.time() - t0, th),
                  file=sys.stderr)
        _prune(th)
        return outdir
    finally:
        fcntl.flock(lock, fcntl.LOCK_UN)
        lock.close()


def _prune(keep):
    """Keep the cache small: drop fact dirs of other trees (oldest first) beyond 6."""
    root = os.path.join(CACHE, "facts")
    ds = [d for d in os.listdir(root) if os.path.isdir(os.path.join(root, d)) and d != keep]
    ds.sort(key=lambda d: os.path.getmtime(os.path.join(root, d)))
    for d in ds[:-12] if len(ds) > 12 else []:
        shutil.rmtree(os.path.join(root, d), ignore_errors=True)
        for f in glob.glob(os.path.join(root, d + "*")):
            try:
                os.remove(f)
            except OSError:
                pass


if __name__ == "__main__":
    for c in sys.argv[1:] or ["K1"]:
        print(extract(c))
