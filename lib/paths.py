"""P5: feasible-path enumeration with correlated-branch splitting.

A small path-sensitive dataflow over a finite abstract domain (no solver, no execution):
each whole local is either a known constant (bool/int/enum variant), or an opaque *symbol*
identified by where it was defined.  A `switchInt` on a known value follows one edge; a
`switchInt` on a symbol forks once per path and every later test of the *same* symbol on that
path takes the same edge (correlated branches), which removes the classic infeasible paths
(`if flag {start}` ... `if flag {finish}`) without merging states.

Locals whose address is taken mutably are never tracked (they stay opaque and uncorrelated).
Loops: a block may be visited at most `max_visits` times on one path.
"""
from .facts import const_int


class PathLimit(Exception):
    pass


class Explorer:
    def __init__(self, body, max_visits=2, max_paths=200000, follow_unwind=False, stop_at=None,
                 assume=None, force=None):
        self.b = body
        self.max_visits = max_visits
        self.max_paths = max_paths
        self.stop_at = set(stop_at or ())
        self.assume = assume or {}
        # force: {switch_bb: fn(visit_index) -> arm value (int) | "otherwise" | None}: scenario-driven decisions
        self.force = force or {}
        self.untracked = set()
        for bi, si, s in body.stmts(live_only=False):
            if s["k"] == "assign":
                rv = s["rv"]
                if (rv["k"] == "ref" and rv["mut"]) or rv["k"] == "rawptr":
                    if not any(pr["k"] == "deref" for pr in rv["p"]["proj"]):
                        self.untracked.add(rv["p"]["l"])
        # first-level fields of (*L) that are written or mutably borrowed somewhere in the body:
        # reads of those through a `&mut`/`*mut` local are never correlated
        self.mut_fields = {}
        def note(place):
            if not place["proj"] or place["proj"][0]["k"] != "deref":
                return
            f = "ALL"
            for pr in place["proj"][1:]:
                if pr["k"] == "field":
                    f = pr["i"]
                    break
                if pr["k"] != "downcast":
                    break
            self.mut_fields.setdefault(place["l"], set()).add(f)
        for bi, si, s in body.stmts(live_only=False):
            if s["k"] == "assign":
                note(s["p"])
                rv = s["rv"]
                if (rv["k"] == "ref" and rv["mut"]) or rv["k"] == "rawptr":
                    note(rv["p"])
        for bl in body.blocks:
            t = bl["term"]
            if t["k"] == "call":
                note(t["dest"])
            elif t["k"] == "drop":
                note(t["p"])
        self.n = 0

    def _stable(self, p):
        """May reads of place p be correlated along a path?"""
        l = p["l"]
        if l in self.untracked:
            return False
        if p["proj"] and p["proj"][0]["k"] == "deref":
            ty = self.b.local_ty(l)
            if ty.startswith("&mut") or ty.startswith("*mut"):
                mf = self.mut_fields.get(l, set())
                if "ALL" in mf:
                    return False
                f = None
                for pr in p["proj"][1:]:
                    if pr["k"] == "field":
                        f = pr["i"]
                        break
                    if pr["k"] != "downcast":
                        break
                if f is None or f in mf:
                    return False
            # a second deref through a `&mut` field is not tracked either
        derefs = sum(1 for pr in p["proj"] if pr["k"] == "deref")
        if derefs > 1:
            return False
        return True

    # abstract values: ("k", int) known scalar; ("v", variant_index) known enum variant;
    # ("s", key) symbol
    def _op(self, env, o):
        if o["k"] == "const":
            v = const_int(o)
            if v is not None:
                return ("k", v)
            return ("s", ("const", o["c"]["d"]))
        p = o["p"]
        if p["proj"]:
            # field of a symbol: derived symbol (stable while the base is unchanged)
            if not self._stable(p):
                self.n += 1
                return ("s", ("untracked", p["l"], self.n))
            base = env.get(p["l"], ("s", ("init", p["l"])))
            key = ("proj", base, tuple((pr["k"], pr.get("i"), pr.get("v")) for pr in p["proj"]))
            return ("s", key)
        if p["l"] in self.untracked:
            self.n += 1
            return ("s", ("untracked", p["l"], self.n))
        return env.get(p["l"], ("s", ("init", p["l"])))

    def _assign(self, env, s, bi, si, visit):
        p = s["p"]
        l = p["l"]
        if p["proj"]:
            if not any(pr["k"] == "deref" for pr in p["proj"]):
                env[l] = ("s", ("partial", l, bi, si, visit))
            return
        rv = s["rv"]
        k = rv["k"]
        val = None
        if k == "use":
            val = self._op(env, rv["o"])
        elif k == "agg" and rv["ak"] == "adt" and rv.get("discr") is not None:
            val = ("v", int(rv["discr"]), rv["variant"])
        elif k == "discr":
            pl = rv["p"]
            if not pl["proj"]:
                src = env.get(pl["l"]) if pl["l"] not in self.untracked else None
                if src is not None and src[0] == "v":
                    val = ("k", src[1])
                elif src is not None:
                    val = ("s", ("discr", src))
                else:
                    val = ("s", ("discr", ("init", pl["l"]), self.n if pl["l"] in self.untracked else 0))
            else:
                if not self._stable(pl):
                    val = ("s", ("untracked-discr", pl["l"], bi, si, visit))
                else:
                    base = env.get(pl["l"], ("s", ("init", pl["l"])))
                    val = ("s", ("discr-proj", base, tuple((pr["k"], pr.get("i"), pr.get("v")) for pr in pl["proj"])))
        elif k == "unop" and rv["op"] == "Not":
            a = self._op(env, rv["o"])
            if a[0] == "k":
                val = ("k", 0 if a[1] else 1)
            else:
                val = ("s", ("not", a))
        elif k == "binop" and rv["op"] in ("Eq", "Ne", "Lt", "Le", "Gt", "Ge"):
            a = self._op(env, rv["a"])
            c = self._op(env, rv["b"])
            if a[0] == "k" and c[0] == "k":
                x, y = a[1], c[1]
                r = {"Eq": x == y, "Ne": x != y, "Lt": x < y, "Le": x <= y, "Gt": x > y, "Ge": x >= y}[rv["op"]]
                val = ("k", 1 if r else 0)
            else:
                val = ("s", ("cmp", rv["op"], a, c))
        elif k == "cast":
            a = self._op(env, rv["o"])
            val = a if a[0] == "k" else ("s", ("cast", a))
        if val is None:
            val = ("s", ("def", l, bi, si, visit))
        env[l] = val

    def run(self, start=0, env=None):
        """Yield (path, reason) with path = list of (block) and reason in
        {"return", "diverge", "stop", "unreachable"}."""
        b = self.b
        paths = []
        self.states = []  # (decisions, env) aligned with the returned paths
        # iterative DFS: stack of (block, env, decisions, path, visits)
        init_env = dict(env or {})
        stack = [(start, init_env, {}, [], {})]
        while stack:
            bi, env, dec, path, visits = stack.pop()
            while True:
                v = visits.get(bi, 0)
                if v >= self.max_visits:
                    break  # bounded unrolling: abandon this path (covered by shorter ones)
                visits = dict(visits)
                visits[bi] = v + 1
                path = path + [bi]
                bl = b.blocks[bi]
                env = dict(env)
                for si, s in enumerate(bl["stmts"]):
                    if s["k"] == "assign":
                        self._assign(env, s, bi, si, v)
                    elif s["k"] == "setdiscr":
                        if not s["p"]["proj"]:
                            env[s["p"]["l"]] = ("s", ("setdiscr", bi, si, v))
                t = bl["term"]
                k = t["k"]
                if bi in self.stop_at and len(path) > 1:
                    paths.append((path, "stop")); self.states.append((dict(dec), dict(env)))
                    break
                if k == "return":
                    paths.append((path, "return")); self.states.append((dict(dec), dict(env)))
                    break
                if k in ("unreachable", "resume", "terminate"):
                    paths.append((path, "unreachable")); self.states.append((dict(dec), dict(env)))
                    break
                if k == "goto":
                    bi = t["t"]
                    continue
                if k in ("drop", "assert"):
                    bi = t["t"]
                    continue
                if k == "call":
                    if not t["dest"]["proj"]:
                        key = ("call", bi, v)
                        a = self.assume.get(bi)
                        env[t["dest"]["l"]] = a if a is not None else ("s", key)
                    if t["t"] is None:
                        paths.append((path, "diverge")); self.states.append((dict(dec), dict(env)))
                        break
                    bi = t["t"]
                    continue
                if k == "asm":
                    if not t["ts"]:
                        paths.append((path, "diverge")); self.states.append((dict(dec), dict(env)))
                        break
                    bi = t["ts"][0]
                    continue
                if k == "switch":
                    val = self._op(env, t["discr"])
                    arms = [(int(a[0]), a[1]) for a in t["arms"]]
                    if bi in self.force:
                        ch = self.force[bi](v)
                        if ch is not None:
                            tgt = t["otherwise"]
                            if ch != "otherwise":
                                for av, at in arms:
                                    if av == ch:
                                        tgt = at
                            bi = tgt
                            continue
                    if val[0] == "k":
                        tgt = t["otherwise"]
                        for av, at in arms:
                            if av == val[1]:
                                tgt = at
                        bi = tgt
                        continue
                    key = val[1]
                    # `not x` shares the decision of x with arms swapped (bool only)
                    if key in dec:
                        choice = dec[key]
                        tgt = t["otherwise"]
                        if choice != "otherwise":
                            found = False
                            for av, at in arms:
                                if av == choice:
                                    tgt = at
                                    found = True
                            if not found:
                                tgt = t["otherwise"]
                        bi = tgt
                        continue
                    neg = self._negated(key)
                    if neg is not None and neg in dec and len(arms) == 1 and arms[0][0] == 0:
                        # dec[neg] is 0 (false) or "otherwise" (true); key = not neg
                        prev = dec[neg]
                        bi = t["otherwise"] if prev == 0 else arms[0][1]
                        continue
                    # fork
                    opts = [(av, at) for av, at in arms] + [("otherwise", t["otherwise"])]
                    # skip unreachable-otherwise blocks
                    first = True
                    nxt = None
                    for choice, tgt in opts:
                        if b.blocks[tgt]["term"]["k"] == "unreachable" and not b.blocks[tgt]["stmts"]:
                            continue
                        d2 = dict(dec)
                        d2[key] = choice
                        if first:
                            nxt = (tgt, d2)
                            first = False
                        else:
                            stack.append((tgt, env, d2, path, visits))
                    if nxt is None:
                        paths.append((path, "unreachable")); self.states.append((dict(dec), dict(env)))
                        break
                    bi, dec = nxt
                    self.n += 1
                    if len(paths) + len(stack) > self.max_paths:
                        raise PathLimit("path limit exceeded in %s" % b.path)
                    continue
                paths.append((path, "unreachable")); self.states.append((dict(dec), dict(env)))
                break
        return paths

    @staticmethod
    def _negated(key):
        if isinstance(key, tuple) and key and key[0] == "not":
            inner = key[1]
            if inner[0] == "s":
                return inner[1]
        return None


def call_sequences(body, paths, interesting):
    """Project each path to the sequence of interesting call names; returns set of (tuple, reason)."""
    out = {}
    for path, reason in paths:
        seq = []
        for bi in path:
            c = body.call_at(bi)
            if c is not None:
                tag = interesting(c)
                if tag is not None:
                    seq.append(tag)
        out.setdefault((tuple(seq), reason), path)
    return out
