"""Rule-engine plumbing: contexts, obligations, violations, evidence and reports."""
import importlib
import json
import os
import sys
import time
import traceback

from . import extract
from .facts import Program

VERIF = extract.VERIF
TIER_CONFIGS = {"quick": ["K1"], "thorough": ["K1", "K2", "K3", "K4"]}


class Violation:
    def __init__(self, rule, key, msg, where, cfg):
        self.rule = rule
        self.key = key
        self.msg = msg
        self.where = where
        self.cfgs = [cfg]

    def to_json(self):
        return {"rule": self.rule, "key": self.key, "message": self.msg, "where": self.where, "configs": self.cfgs}


class Ctx:
    def __init__(self, prop, tier, seed):
        self.prop = prop
        self.tier = tier
        self.seed = seed
        self.cfg = None
        self.obligations = []  # (rule, instance, cfg)
        self.violations = {}  # key -> Violation
        self.notes = []
        self.samples = []
        self.funcs = set()
        self.calls_examined = 0
        self._progs = {}
        self.t0 = time.time()
        self.extra = {}

    # ---- programs
    def prog(self, cfg=None):
        cfg = cfg or self.cfg
        if cfg not in self._progs:
            d = extract.extract(cfg)
            p = Program(d, cfg)
            if getattr(self, "inline_keep", None) is not None and not os.environ.get("VERIF_NO_INLINE"):
                from . import inline
                self.inlined_bodies = inline.enable(p, self.inline_keep)
            self._progs[cfg] = p
            rn = getattr(p, "renames", None) or {}
            if any(rn.values()):
                self.note("renamed items mapped back to the names the rules use (lib/rename.py): %s" %
                          "; ".join("%s -> %s" % (k, v) for part in ("modules", "types", "variants", "fields", "fns") for k, v in sorted(rn.get(part, {}).items())))
        return self._progs[cfg]

    # ---- recording
    def ok(self, rule, instance, detail=None):
        self.obligations.append((rule, instance, self.cfg))
        if detail is not None and len(self.samples) < 400:
            self.samples.append({"rule": rule, "instance": instance, "detail": detail, "config": self.cfg})

    def fail(self, rule, key, msg, where=None):
        """key: stable identity without line numbers (list/tuple of strings)."""
        k = rule + "|" + "|".join(str(x) for x in key)
        self.obligations.append((rule, "|".join(str(x) for x in key), self.cfg))
        if k in self.violations:
            if self.cfg not in self.violations[k].cfgs:
                self.violations[k].cfgs.append(self.cfg)
        else:
            self.violations[k] = Violation(rule, k, msg, where, self.cfg)

    def check(self, cond, rule, key, msg, where=None, detail=None):
        """Record one obligation: discharged if cond, violation otherwise."""
        if cond:
            self.ok(rule, "|".join(str(x) for x in key), detail)
        else:
            self.fail(rule, key, msg, where)
        return bool(cond)

    def anchor(self, rule, what, found, floor=1, where=None):
        """Fail closed when a semantic anchor is missing or an instance count is below its floor."""
        n = found if isinstance(found, int) else len(found)
        if n < floor:
            self.fail(rule + "/ANCHOR", [what],
                      "anchor/floor: expected at least %d instance(s) of %s, found %d - the mechanism this rule "
                      "checks is missing or was restructured beyond recognition" % (floor, what, n), where)
            return False
        return True

    def saw(self, body):
        self.funcs.add((body.crate, body.path))

    def note(self, s):
        if s not in self.notes:
            self.notes.append(s)


_VOCAB = None


def rule_vocabulary_keep():
    """keep(name) for lib.inline: a crate-local callee stays a call when the rules can know it by name - its last path
    segment occurs as a word somewhere in rules/*.py. Helpers the rules have never heard of are inlined into their callers."""
    global _VOCAB
    if _VOCAB is None:
        import ast
        import glob
        import re
        ident = re.compile(r"^[A-Za-z_][A-Za-z0-9_]*$")
        word = re.compile(r"[A-Za-z_][A-Za-z0-9_]*")
        vocab = set()
        for f in sorted(glob.glob(os.path.join(VERIF, "rules", "*.py"))):
            tree = ast.parse(open(f).read())
            doc = set()
            for node in ast.walk(tree):
                if isinstance(node, (ast.FunctionDef, ast.ClassDef, ast.Module)) and node.body and isinstance(node.body[0], ast.Expr) and \
                        isinstance(getattr(node.body[0], "value", None), ast.Constant) and isinstance(node.body[0].value.value, str):
                    doc.add(id(node.body[0].value))
            for node in ast.walk(tree):
                if isinstance(node, ast.Constant) and isinstance(node.value, str) and id(node) not in doc:
                    v = node.value
                    if ident.match(v):
                        vocab.add(v)                      # "tally_op", "is_tune": a name on its own
                    elif "::" in v and len(v) < 200:
                        # a path, a path suffix or a pattern of paths: the names next to a `::`
                        for m in re.finditer(r"(?:(?<=::)[A-Za-z_][A-Za-z0-9_]*)|(?:[A-Za-z_][A-Za-z0-9_]*(?=::))", v):
                            vocab.add(m.group(0))
        _VOCAB = vocab
    vocab = _VOCAB

    # a function that did not exist on the reference tree (tables/names.json, after rename normalisation) cannot be one the
    # rules know by name, even when its last segment collides with a word of the vocabulary (a new
    # `UntaggedTimestamp::duration_since` helper next to `Timestamp::duration_since`): it is inlined like any other helper
    known = None
    try:
        import json as _json
        snap = _json.load(open(os.path.join(VERIF, "tables", "names.json")))
        known = set(snap.get("fns", {}))
        # ... or a function a rule names by its full path (one that exists on the reference tree only under cfg(test),
        # e.g. SplitVec::split, is still a function the rules know)
        import ast as _ast
        import glob as _glob
        import re as _re
        full = _re.compile(r"^[a-z_][A-Za-z0-9_]*(::[A-Za-z_][A-Za-z0-9_]*)+$")
        for f_ in sorted(_glob.glob(os.path.join(VERIF, "rules", "*.py"))):
            for node in _ast.walk(_ast.parse(open(f_).read())):
                if isinstance(node, _ast.Constant) and isinstance(node.value, str) and full.match(node.value):
                    known.add(node.value)
    except (OSError, ValueError):
        known = None

    def keep(name):
        last = name.rsplit("::", 1)[-1]
        last = last.split("#")[0]
        if last not in vocab:
            return False
        if known is not None and "{closure" not in name and name not in known and norm_name(name) not in known:
            return False
        return True
    return keep


def norm_name(name):
    from .facts import norm
    return norm(name)


def load_known():
    p = os.path.join(VERIF, "known_findings.json")
    if not os.path.exists(p):
        return []
    with open(p) as fh:
        return json.load(fh)["findings"]


def _guard_rules(mod, ctx):
    """Fail closed, rule by rule: a rule function (module-level `rNN_x`) that raises because the code no longer has the
    shape it navigates (a field, an aggregate, a call site is gone) is recorded as a violation `<rule>/SHAPE` naming the
    function and the exception, and the remaining rules still run.  Infrastructure errors (AnalysisError) propagate."""
    import functools
    import re
    for name, fn in list(vars(mod).items()):
        m = re.match(r"^r(\d\d)_(\w+)$", name)
        if not m or not callable(fn) or getattr(fn, "_guarded", False):
            continue
        rule = "R%s.%s" % (m.group(1), m.group(2))

        def make(fn, rule, name):
            @functools.wraps(fn)
            def wrapped(*a, **k):
                try:
                    return fn(*a, **k)
                except (extract.AnalysisError, KeyboardInterrupt, NameError, ImportError, SyntaxError, RecursionError, MemoryError):
                    raise       # infrastructure / programming errors of the machinery itself: ANALYSIS-ERROR, exit 2
                except Exception as e:  # noqa: BLE001
                    tb = traceback.extract_tb(e.__traceback__)
                    last = [f for f in tb if "/rules/" in f.filename] or list(tb)
                    where = "%s:%d" % (os.path.basename(last[-1].filename), last[-1].lineno)
                    ctx.fail(rule + "/SHAPE", [name, type(e).__name__],
                             "rule %s could not navigate the code it checks (%s: %s at %s): the construct it is anchored in was removed or "
                             "restructured beyond recognition" % (rule, type(e).__name__, e, where), None)
                    return None
            wrapped._guarded = True
            return wrapped
        setattr(mod, name, make(fn, rule, name))


def run_property(prop, tier="quick", seed=0):
    mod = importlib.import_module("rules." + prop)
    ctx = Ctx(prop, tier, seed)
    _guard_rules(mod, ctx)
    if getattr(mod, "INLINE", False):
        ctx.inline_keep = rule_vocabulary_keep()
    cfgs = [c for c in TIER_CONFIGS[tier] if c in getattr(mod, "CONFIGS", ["K1", "K2", "K3", "K4"])]
    status = 0
    try:
        for cfg in cfgs:
            ctx.cfg = cfg
            prog = ctx.prog(cfg)
            crates = ["divan"]
            if cfg == "K3" and "divan.test" in prog.crates and getattr(mod, "ALSO_TEST_LIB", True):
                crates.append("divan.test")
            for crate in crates:
                ctx.crate = crate
                ctx.cfg = cfg if crate == "divan" else cfg + "/cfg(test)"
                try:
                    mod.run(ctx, prog, crate)
                except (KeyError, IndexError, TypeError, ValueError, AttributeError, AssertionError) as e:
                    # navigation error outside a guarded rule function: fail closed as well
                    tb = traceback.extract_tb(e.__traceback__)
                    last = [f for f in tb if "/rules/" in f.filename] or list(tb)
                    ctx.fail("R%s/SHAPE" % prop[1:], ["run", type(e).__name__],
                             "the rule driver of %s could not navigate the code it checks (%s: %s at %s:%d)"
                             % (prop, type(e).__name__, e, os.path.basename(last[-1].filename), last[-1].lineno), None)
            ctx.cfg = cfg
            if hasattr(mod, "run_program"):
                mod.run_program(ctx, prog)
        ctx.cfg = "-"
        if hasattr(mod, "run_extra"):
            mod.run_extra(ctx)
    except extract.AnalysisError as e:
        print("ANALYSIS-ERROR property=%s %s" % (prop, e))
        return 2
    except Exception:
        traceback.print_exc()
        print("ANALYSIS-ERROR property=%s internal error in rule engine" % prop)
        return 2

    known = [k for k in load_known() if k["property"] == prop]
    known_keys = {k["key"]: k for k in known if k.get("status") == "known"}
    new = []
    suppressed = []
    for k, v in sorted(ctx.violations.items()):
        if k in known_keys:
            suppressed.append(v)
        else:
            new.append(v)

    wall = time.time() - ctx.t0
    n_obl = len(ctx.obligations)
    n_viol_obl = 0
    vk = set(ctx.violations)
    for (rule, inst, cfg) in ctx.obligations:
        if (rule + "|" + inst) in vk:
            n_viol_obl += 1
    rules = {}
    for (rule, inst, cfg) in ctx.obligations:
        rules.setdefault(rule, set()).add(inst)

    scratch_run = bool(os.environ.get("VERIF_NO_EVIDENCE"))  # mutant/self-test runs never touch evidence/
    selftest_failed = []
    if tier == "thorough" and not new and not scratch_run and not os.environ.get("VERIF_NO_SELFTEST"):
        st = selftest(prop)
        ctx.extra["selftest"] = st
        if st.get("tree_is_reference"):
            selftest_failed = st["not_reported"]
    os.makedirs(os.path.join(VERIF, "reports"), exist_ok=True)
    report_path = os.path.join(VERIF, "reports", prop + (".scratch.%d" % os.getpid() if scratch_run else "") + ".json")
    report = {
        "property": prop, "tier": tier, "repo": extract.REPO, "tree": extract.tree_hash(),
        "violations": [v.to_json() for v in new],
        "known_findings_matched": [v.to_json() for v in suppressed],
        "rules": {r: sorted(s) for r, s in sorted(rules.items())},
        "functions_analysed": sorted("%s::%s" % f if f[0] != "divan" else f[1] for f in ctx.funcs),
    }
    with open(report_path, "w") as fh:
        json.dump(report, fh, indent=1)

    expl = getattr(mod, "EXPLANATION", "")
    ev = {
        "property_id": prop, "tier": tier, "seed": int(seed), "level": "other",
        "coverage": {
            "explanation": expl,
            "obligations": n_obl,
            "discharged": n_obl - n_viol_obl,
            "rule_instances": {r: len(s) for r, s in sorted(rules.items())},
            "functions_analysed": len(ctx.funcs),
            "configs": {c: ctx._progs[c].crates for c in ctx._progs},
            "samples": ctx.samples[:60] or [{"rule": r, "instances": sorted(s)[:5]} for r, s in sorted(rules.items())][:40],
            "checker_cmd": "./check %s --tier %s" % (prop, tier),
            "trusted_base": getattr(mod, "TRUSTED", []) + [
                "rustc nightly type checker, MIR construction and drop elaboration; Instance::try_resolve",
                "the mirfacts exporter and this rule engine (cross-checked by seeded mutants, see seeded/ and selftest/)"],
            "exhaustive": False,
            "not_decided": getattr(mod, "NOT_DECIDED", []),
            "known_findings_matched": [v.key for v in suppressed],
            "notes": ctx.notes,
        },
        "assumptions": getattr(mod, "ASSUMPTIONS", []) + [
            "code under cfg(macos/windows/aarch64/miri) is not analysed (cannot be type-checked in this sandbox)"],
        "wall_s": round(wall, 2),
        "violations": len(new),
    }
    ev["coverage"].update(ctx.extra)
    if not scratch_run:
        os.makedirs(os.path.join(VERIF, "evidence"), exist_ok=True)
        with open(os.path.join(VERIF, "evidence", prop + ".json"), "w") as fh:
            json.dump(ev, fh, indent=1, sort_keys=False)
    else:
        try:
            os.remove(report_path)
        except OSError:
            pass

    print("[%s] tier=%s configs=%s functions=%d obligations=%d discharged=%d wall=%.1fs"
          % (prop, tier, ",".join(cfgs), len(ctx.funcs), n_obl, n_obl - n_viol_obl, wall))
    for r, s in sorted(rules.items()):
        bad = [k for k in ctx.violations if k.split("|")[0] == r and k not in known_keys]
        kn = [k for k in ctx.violations if k.split("|")[0] == r and k in known_keys]
        st = "ok" if not bad and not kn else ("VIOLATED x%d" % len(bad) if bad else "known-finding x%d" % len(kn))
        print("  %-12s instances=%-4d %s" % (r, len(s), st))
    for v in suppressed:
        print("KNOWN-FINDING: property=%s %s -- %s" % (prop, v.key, known_keys[v.key].get("what", v.msg)))
    for v in new:
        print("  violation %s\n    at %s\n    %s" % (v.key, v.where, v.msg))
    if "selftest" in ctx.extra:
        st = ctx.extra["selftest"]
        print("  selftest: %d positive controls (mutants/ + seeded/) applied to scratch copies, %d reported, %d skipped%s"
              % (st["applied"], st["reported"], len(st["skipped"]), "" if st["tree_is_reference"] else " (tree differs from the reference tree: informational)"))
    if new:
        print("VIOLATION property=%s replay=%s" % (prop, report_path))
        status = 1
    elif selftest_failed:
        print("ANALYSIS-ERROR property=%s selftest: positive control(s) %s not reported by the rules" % (prop, selftest_failed))
        status = 2
    return status


def selftest(prop, jobs=4):
    """Positive controls (thorough tier): every stored mutant and seeded change of this property is applied to a scratch
    copy of the repository (under $TMPDIR, removed afterwards) and the quick rules must report it.  A control whose patch
    no longer applies is skipped.  Failures are fatal only on the reference tree the controls were verified against."""
    import subprocess
    import tempfile
    import shutil
    from concurrent.futures import ThreadPoolExecutor
    todo = []
    md = os.path.join(VERIF, "mutants", prop)
    if os.path.isdir(md):
        for f in sorted(os.listdir(md)):
            if f.endswith(".patch"):
                want = json.load(open(os.path.join(md, f[:-6] + ".json"))).get("expect_rules", [])
                todo.append(("mutants/%s/%s" % (prop, f), want))
    sd = os.path.join(VERIF, "seeded")
    for d in sorted(os.listdir(sd)) if os.path.isdir(sd) else []:
        mp = os.path.join(sd, d, "meta.json")
        if os.path.exists(mp) and prop in (json.load(open(mp)).get("caught_by") or []):
            todo.append(("seeded/%s/patch.diff" % d, []))
    ref = {}
    try:
        ref = json.load(open(os.path.join(VERIF, "mutants", "VERIFIED.json")))
    except (OSError, ValueError):
        pass

    def one(args):
        i, (rel, want) = args
        d = tempfile.mkdtemp(prefix="verif-selftest-")
        try:
            subprocess.check_call(["rsync", "-a", "--exclude", "target", "--exclude", ".git", extract.REPO + "/", d + "/"])
            r = subprocess.run(["patch", "-p1", "-s", "-i", os.path.join(VERIF, rel)], cwd=d, capture_output=True, text=True)
            if r.returncode != 0:
                return (rel, "skipped", "patch does not apply to this tree")
            env = dict(os.environ, VERIF_REPO=d, VERIF_NO_EVIDENCE="1", VERIF_CACHE=os.path.join(extract.CACHE, "mutslots", str(i % jobs)))
            r = subprocess.run([os.path.join(VERIF, "check"), prop, "--tier", "quick"], cwd=VERIF, env=env, capture_output=True, text=True)
            rules = {l.strip()[len("violation "):].split("|")[0] for l in r.stdout.splitlines() if l.strip().startswith("violation ")}
            if r.returncode == 2:
                return (rel, "skipped", "scratch copy could not be analysed: " + r.stdout.strip().splitlines()[-1][:200] if r.stdout.strip() else "analysis error")
            ok = r.returncode == 1 and (not want or bool(set(want) & rules))
            return (rel, "reported" if ok else "not-reported", sorted(rules))
        finally:
            shutil.rmtree(d, ignore_errors=True)
    by_slot = {}
    for i, t in enumerate(todo):
        by_slot.setdefault(i % jobs, []).append((i, t))
    res = []
    with ThreadPoolExecutor(max_workers=jobs) as ex:
        for out in ex.map(lambda lst: [one(x) for x in lst], by_slot.values()):
            res.extend(out)
    return {
        "controls": len(todo), "applied": sum(1 for r in res if r[1] != "skipped"), "reported": sum(1 for r in res if r[1] == "reported"),
        "not_reported": sorted(r[0] for r in res if r[1] == "not-reported"), "skipped": sorted([r[0], r[2]] for r in res if r[1] == "skipped"),
        "tree_is_reference": ref.get("tree") == extract.tree_hash(), "reference_tree": ref.get("tree"),
        "reported_rules": {r[0]: r[2] for r in sorted(res) if r[1] == "reported"},
    }
