//! /verif/corpus: one item for every attribute form named by C12 / C17 (never run; only macro-expanded and parsed).
#![allow(dead_code, unused_variables, non_upper_case_globals, clippy::all)]
use std::time::Duration;

use divan::Bencher;

// ---- plain forms
#[divan::bench]
fn plain() {}

#[divan::bench]
fn with_bencher(bencher: Bencher) {
    bencher.bench(|| 1 + 1);
}

#[divan::bench]
fn returns_value() -> String {
    String::new()
}

// ---- names, raw identifiers, ignore
#[divan::bench(name = "custom name")]
fn custom_name() {}

#[divan::bench]
fn r#match() {}

#[divan::bench(r#name = "raw key")]
fn raw_key() {}

#[divan::bench]
#[ignore]
fn ignored_by_attr() {}

#[divan::bench]
#[ignore = "with a reason (name-value form of the built-in attribute)"]
fn ignored_by_attr_with_reason() {}

#[ignore = "attribute written before the bench attribute"]
#[divan::bench(sample_size = 2)]
fn ignored_by_leading_attr_with_reason() {}

#[divan::bench_group]
#[ignore = "group ignored with a reason"]
mod ignored_group_with_reason {
    #[divan::bench]
    fn inner() {}
}

#[divan::bench_group(sample_count = 3)]
#[ignore]
mod ignored_group_by_attr {
    #[divan::bench]
    fn inner() {}
}

#[divan::bench(ignore)]
fn ignored_by_flag() {}

#[divan::bench(ignore = true)]
fn ignored_by_value() {}

#[divan::bench(ignore = false)]
fn not_ignored() {}

// ---- options
#[divan::bench(sample_count = 7, sample_size = 3)]
fn counts() {}

#[divan::bench(min_time = 0.5, max_time = Duration::from_secs(2), skip_ext_time)]
fn times() {}

#[divan::bench(threads = [1, 2, 0])]
fn thread_list() {}

#[divan::bench(threads = false)]
fn threads_off() {}

#[divan::bench(items_count = 10u32, bytes_count = 20usize)]
fn counters() {}

// ---- runtime arguments over several iterator kinds
#[divan::bench(args = [1, 2, 3])]
fn args_array(n: u32) {}

#[divan::bench(args = [1u64, 2, 3].as_slice())]
fn args_slice(n: &u64) {}

#[divan::bench(args = 0..4)]
fn args_range(n: usize) {}

#[divan::bench(args = ["a", "b"])]
fn args_strs(s: &str) {}

#[divan::bench(args = vec![String::from("x"), String::from("y")])]
fn args_strings(s: &String) {}

#[divan::bench(args = [10, 20])]
fn args_with_bencher(bencher: Bencher, n: i32) {
    bencher.bench(|| n);
}

#[divan::bench(args = [] as [u8; 0])]
fn args_empty(n: u8) {}

// ---- generic types / consts
#[divan::bench(types = [u8, String, Vec<i32>])]
fn types_only<T: Default>() -> T {
    T::default()
}

#[divan::bench(consts = [1, 2, 4, 8])]
fn consts_literal<const N: usize>() -> [u8; N] {
    [0; N]
}

const LENS: [usize; 3] = [0, 16, 256];

#[divan::bench(consts = LENS)]
fn consts_external<const N: usize>() -> [u8; N] {
    [0; N]
}

#[divan::bench(types = [u16, i64], consts = [3, 5, 7])]
fn types_and_consts<T: Default, const N: usize>() -> (T, [u8; N]) {
    (T::default(), [0; N])
}

#[divan::bench(types = [u16, i64], consts = [3, 5, 7])]
fn consts_then_types<const N: usize, T: Default>() -> (T, [u8; N]) {
    (T::default(), [0; N])
}

#[divan::bench(types = [u32, u64], args = [1, 2, 3])]
fn types_and_args<T: From<u8>>(n: u8) -> T {
    T::from(n)
}

#[divan::bench(consts = [2, 3], args = ["p", "q"])]
fn consts_and_args<const N: usize>(s: &str) -> usize {
    s.len() * N
}

#[divan::bench(types = [])]
fn types_empty<T>() {}

#[divan::bench(consts = [])]
fn consts_empty<const N: usize>() {}

#[divan::bench(types = [i8], name = "renamed generic", sample_count = 2)]
fn generic_with_options<T: Default>() -> T {
    T::default()
}

// ---- ABIs, lifetimes, nesting inside function bodies
#[divan::bench]
extern "C" fn c_abi() {}

#[divan::bench]
fn with_lifetime<'a>() -> &'a str {
    ""
}

#[divan::bench]
fn outer_fn() {
    #[divan::bench]
    fn nested_fn() {
        #[divan::bench(args = [1, 2])]
        fn deeply_nested(n: u8) {}
    }
}

// ---- module tree of depth 4, groups with and without custom names and options
#[divan::bench_group]
mod g1 {
    #[divan::bench]
    fn in_g1() {}

    #[divan::bench_group(name = "second level", sample_count = 5)]
    mod g2 {
        #[divan::bench(sample_size = 9)]
        fn in_g2() {}

        pub mod plain_mod {
            #[divan::bench_group(ignore, threads = [2, 4])]
            pub mod g4 {
                #[divan::bench(ignore = false)]
                fn in_g4() {}

                #[divan::bench(types = [u8, u16])]
                fn generic_in_g4<T>() {}
            }
        }
    }
}

#[divan::bench_group(max_time = 1)]
mod r#type {
    #[divan::bench]
    fn in_raw_mod() {}
}

mod ungrouped {
    pub mod deeper {
        #[divan::bench(name = "leaf")]
        fn in_plain_mods() {}
    }
}
